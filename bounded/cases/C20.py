"""C20 bounded stand-in / replay harness: framework error pages never reflect request data unescaped.

Contract (statement of C20; debug off), checked on the bytes the REAL application returns through WSGI for
error responses it generates itself (404, 405, 400 undecodable path, 400 broken chunked body, 413, 500 from a
crashing handler / crashing generator / unsupported return type, and the last-resort page reached through a
failing error handler or an unsendable header):

  X1 (raw fragment)  every piece of request-controlled text put into path, query string, Host,
      X-Forwarded-Host or X-Forwarded-Proto carries a marker glued to each markup-significant character
      (`<M`, `M>`, `"M`, `M"`, `'M`, `&M`); none of these glued pairs occurs in the body: the character next to the
      marker must have been escaped (or percent-encoded, or the text left out).
  X2 (skeleton)  the tags and attributes an HTML parser sees in the body are exactly those it sees in the page
      the same application produces for the same kind of error when the request text is a harmless word
      (or those of the harmless last-resort page): request text adds no tag, attribute, comment or declaration.
  X3 (counts)  the body has as many `<`, `>`, `"` and `'` as that harmless page.
  X4 (format syntax)  replacement fields in request text (`{e.status}`, `{0}`, `{url}`, `{{`, ...) are not
      evaluated: wherever the marker that follows the field shows up, the field text stands in front of it
      literally (as is, percent-encoded or HTML-escaped).
  J1  when the client asks for JSON (Accept: application/json...) and the response is not the last-resort
      page, the error body parses as JSON; whenever the response is labelled application/json it parses as JSON.

Application configurations: the statement's only condition is "debug off".  Every case runs with debug=False;
`catchall` (a different switch: whether a failure of the WSGI layer itself is answered with the last-resort page
or re-raised to the server) is swept over {True (default), False} (case field catchall, absent = True).  With
catchall=False and debug off the error pages are held to exactly the same clauses; a request whose exception is
re-raised to the server produces no page and nothing is claimed for it.  debug=True is a developer mode about
which the statement says nothing: it is not generated.
Configuration HISTORIES (case field history, absent = constructed with debug off): "debug off" is a statement about the
application's configuration at the time of the request, so applications that were CONSTRUCTED with {'debug': True} and
then set to debug False through the documented app.setup(config) are generated too, and their pages are held to exactly
the same clauses (and compared with the same harmless pages of applications constructed with debug off):
  on>off          Ombott({... debug True}); app.setup({... debug False}); routes; request
  on>routes>off   Ombott({... debug True}); routes; app.setup({... debug False}); request
  on>served>off   Ombott({... debug True}); routes; a request (other payload, marker M2) served in debug mode - nothing is
                  claimed for that page; app.setup({... debug False}); request (the earlier payload must not show up
                  unescaped either)
  off>on>off      Ombott({... debug False}); app.setup({... debug True}); app.setup({... debug False}); routes; request
(setup replaces the whole configuration, so it is given the full dictionary: sizes, catchall, debug.)  The reverse
(a request served while debug is on) is outside the statement and never judged.
Handlers whose exception text repeats request data (500int: int() of the path -> ValueError quoting the path;
500echo / 500echoiter: an exception, raised by the handler / by its generator, whose message quotes path, raw
and unquoted query string, Host, X-Forwarded-Host and X-Forwarded-Proto): with debug off whatever the page shows
of that text is request-controlled text and is held to X1-X4 like the URL.

Accepted without judgement: status codes, which of the error pages a request ends up with, whether the URL
is shown at all, header values, the last-resort page being HTML even when JSON was asked for, exception
text inside JSON bodies.
"""
import html.parser
import itertools
import json
import random
import urllib.parse

from bounded.common import make_environ, serve, fail, chunk_encode

M = 'zq7k'        # marker, glued to every significant character of a payload
M2 = 'wj4x'       # marker of the payload of a preceding request
BENIGN = 'harmlesstext'

KINDS = ['404', '405', '400path', '400chunk', '413', '500', '500iter', '500type',
         'crit404handler', 'crit500handler', 'critheader']
ECHO_KINDS = ['500int', '500echo', '500echoiter']      # the handler's exception text repeats request data
ALL_KINDS = KINDS + ECHO_KINDS
ACCEPTS = ['', 'text/html', 'application/json', 'application/json, text/plain, */*', 'application/json;q=0.9, text/html;q=0.1',
           'application/json; charset=utf-8']
WHERES = ['path', 'query', 'host', 'xfh', 'proto', 'all']

MARKUP = ['<script>alert(%s)</script>', '"><img src=x onerror=%s>', "'><svg/onload=%s>", '</tt><b>%s</b><tt>',
          '<%s', '%s>', '"%s"', "'%s'", '&%s;', '&lt;%s&gt;', '&#60;%s&#62;', '&amp;%s', '<!--%s', '--><%s>',
          ']]><%s>', '</pre><%s>', '</title></head><body><%s>', '</style><%s>', '<%s x="', '\\x3c%s\\x3e<%s>',
          'é<%s>€', 'ſcript<%s>', ' <%s>', '\x00<%s>', '\t<%s\n>', '<<%s>>', "\\'%s\\\"<%s"]
FORMATS = ['{e.status}', '{0}', '{url}', '{e.body}', '{traceback}', '{exception}', '{e.__class__.__name__}',
           '{e.headers}', '{url!r}', '{e.status:>30}', '{{', '}}', '{', '}', '{}', '%s', '%(url)s', '%r%d', '{e.traceback}',
           '${url}', '{e._headers}']

HISTORIES = ['on>off', 'on>routes>off', 'on>served>off', 'off>on>off']    # see the module docstring
PREV_PAYLOAD = '"><' + M2 + 'prev>&' + M2 + ';{e.status}' + M2

BOUND = ('error kinds %s x rendering (Accept in %s) x position of the request text in {path, query string, Host, '
         'X-Forwarded-Host, X-Forwarded-Proto, all five at once} x %d markup payloads (tags, attribute break-outs, '
         'entities, comments, CDATA, template-closing tags, control and non-ASCII characters, backslash escapes) and %d '
         'format-syntax payloads (str.format fields incl. attribute access, conversions, doubled and lone braces, '
         '%%-formats), each with a marker glued to every significant character; exhaustive over that product; plus the '
         'same with a preceding request carrying another payload (quick: sampled; thorough: all) and seeded random '
         'payloads built from the significant characters; all with debug=False, catchall default (True). '
         'Added: handler kinds whose exception text repeats the request data (%s) x catchall in {True, False} x Accept in '
         '{none, application/json} x every position x every payload (exhaustive); the other kinds with catchall=False x '
         'Accept in {none, application/json} x position in {path, all} x 6 markup + 2 format payloads; 400 seeded '
         'random payloads over all kinds x catchall in {True, False}; debug=True is not generated (statement: debug off). '
         'Added: applications CONSTRUCTED with debug=True and set to debug=False by app.setup(full config) before the judged request '
         '(histories %s): history on>off x the exception-echoing kinds x Accept in {none, application/json} x every position x '
         'every payload (exhaustive); the other three histories x those kinds x Accept x position in {path, all} x 8 markup + 4 '
         'format payloads; history on>off x every other kind x Accept x position in {path, all} x 8 payloads; on>off x echoing kinds '
         'x catchall=False x 8 markup payloads; 300 (thorough 6000) seeded random payloads over all kinds x all histories x catchall. '
         'Added: long request text - kinds {404, 405, 400path, 500, 500echo} x Accept in {none, application/json} x position in '
         '{path, query, host, all} x padding {300, 1100, 5000} (thorough: + 1000, 70000) x 3 payload shapes (markup at both ends '
         'of the padding, markup after it, markup repeated throughout). '
         'Added: fullwidth / small-form look-alikes of < > " \' & in the request text x every kind x Accept in {none, application/json} x '
         'position in {path, query, host, all}: never folded into the real characters'
         % ('{' + ', '.join(KINDS) + '}', ACCEPTS, len(MARKUP), len(FORMATS), ', '.join(ECHO_KINDS), HISTORIES))
NONTRIVIAL_RULE = ('distinct (kind, accept, where, payload, previous, catchall, history); every case carries at least one '
                   'significant character')



def exhaustive(tier):
    return True


def nontrivial(case):
    return True


def gen_cases(tier, seed):
    thorough = tier != 'quick'
    markup = [t.replace('%s', M) for t in MARKUP]
    formats = [f + M for f in FORMATS] + [M + f + M for f in FORMATS[:8]]
    rnd = random.Random(seed * 101 + 20)
    for kind in KINDS:
        for accept in ACCEPTS:
            for where in WHERES:
                for p in markup + formats:
                    yield dict(kind=kind, accept=accept, where=where, payload=p, prev=None)
    # a request served before on the same application (its text must not leak unescaped either)
    prevs = list(itertools.product(KINDS, ACCEPTS[::2], ('query', 'all'), (markup[0], markup[1], formats[0])))
    if not thorough:
        prevs = rnd.sample(prevs, 60)
    for kind, accept, where, p in prevs:
        for pk in (KINDS if thorough else ('404', '400path', '500', 'crit404handler')):
            yield dict(kind=kind, accept=accept, where=where, payload=p, prev=dict(kind=pk, payload='"><' + M2 + 'prev>&' + M2 + ';{e.status}' + M2))
    alphabet = ['<', '>', '"', "'", '&', '{', '}', '%', '\\', ';', '#', '/', ' ', '=', M, M, 'e.status', '0', 'url', 'x', 'é']
    for _ in range(1500 if not thorough else 30000):
        p = ''.join(rnd.choice(alphabet) for _ in range(rnd.randrange(2, 14)))
        yield dict(kind=rnd.choice(KINDS), accept=rnd.choice(ACCEPTS), where=rnd.choice(WHERES), payload=p, prev=None)
    # exception text that repeats request data; catchall on and off (debug off throughout)
    for kind in ECHO_KINDS:
        for catchall in (1, 0):
            for accept in ('', 'application/json'):
                for where in WHERES:
                    for p in markup + formats:
                        yield dict(kind=kind, accept=accept, where=where, payload=p, prev=None, catchall=catchall)
    for kind in KINDS:
        for accept in ('', 'application/json'):
            for where in ('path', 'all'):
                for p in markup[:4] + [markup[9], markup[12]] + [formats[0], formats[2]]:
                    yield dict(kind=kind, accept=accept, where=where, payload=p, prev=None, catchall=0)
    rnd2 = random.Random(seed * 101 + 2020)
    for _ in range(400 if not thorough else 8000):
        p = ''.join(rnd2.choice(alphabet) for _ in range(rnd2.randrange(2, 14)))
        yield dict(kind=rnd2.choice(ALL_KINDS), accept=rnd2.choice(ACCEPTS), where=rnd2.choice(WHERES), payload=p, prev=None,
                   catchall=rnd2.choice([0, 1]))
    # applications constructed with debug on and reconfigured to debug off before the request
    for kind in ECHO_KINDS:
        for accept in ('', 'application/json'):
            for where in WHERES:
                for p in markup + formats:
                    yield dict(kind=kind, accept=accept, where=where, payload=p, prev=None, history='on>off')
    for history in HISTORIES[1:]:
        for kind in ECHO_KINDS:
            for accept in ('', 'application/json'):
                for where in ('path', 'all'):
                    for p in markup[:8] + formats[:4]:
                        yield dict(kind=kind, accept=accept, where=where, payload=p, prev=None, history=history)
    for kind in KINDS:
        for accept in ('', 'application/json'):
            for where in ('path', 'all'):
                for p in markup[:4] + [markup[9], markup[12]] + [formats[0], formats[2]]:
                    yield dict(kind=kind, accept=accept, where=where, payload=p, prev=None, history='on>off')
    for kind in ECHO_KINDS:
        for accept in ('', 'application/json'):
            for p in markup[:8]:
                yield dict(kind=kind, accept=accept, where='all', payload=p, prev=None, history='on>off', catchall=0)
    rnd3 = random.Random(seed * 101 + 202020)
    for _ in range(300 if not thorough else 6000):
        p = ''.join(rnd3.choice(alphabet) for _ in range(rnd3.randrange(2, 14)))
        yield dict(kind=rnd3.choice(ALL_KINDS), accept=rnd3.choice(ACCEPTS), where=rnd3.choice(WHERES), payload=p, prev=None,
                   catchall=rnd3.choice([0, 1]), history=rnd3.choice(HISTORIES))
    # compatibility look-alikes of the markup characters in the request text, every kind (incl. the last-resort page)
    for kind in ALL_KINDS:
        for accept in ('', 'application/json'):
            for where in ('path', 'query', 'host', 'all'):
                for p in ('\uff1cimg src=x onerror=' + M + '\uff1e', '\ufe64b\ufe65' + M + '\uff02\uff07\uff06'):
                    yield dict(kind=kind, accept=accept, where=where, payload=p, prev=None)
    # long request text (an error page that shortens, wraps or pages what it echoes must still escape all of it)
    for kind in ('404', '405', '400path', '500', '500echo'):
        for accept in ('', 'application/json'):
            for where in ('path', 'query', 'host', 'all'):
                for pad in ((300, 1100, 5000) if not thorough else (300, 1000, 1100, 5000, 70000)):
                    for p in (markup[0] + 'a' * pad + markup[1], 'a' * pad + markup[3], markup[1] * (pad // len(markup[1]) + 1)):
                        yield dict(kind=kind, accept=accept, where=where, payload=p, prev=None)
    if thorough:
        for kind, accept, where, p in prevs[:200]:
            for pk in ECHO_KINDS:
                for catchall in (1, 0):
                    yield dict(kind=kind, accept=accept, where=where, payload=p, catchall=catchall,
                               prev=dict(kind=pk, payload='"><' + M2 + 'prev>&' + M2 + ';{e.status}' + M2))


# ---------------------------------------------------------------------------------------------
# application and requests
# ---------------------------------------------------------------------------------------------
def _request_text(environ):
    """Everything request-controlled, as an application might quote it in an exception message."""
    qs = environ.get('QUERY_STRING', '')
    return 'cannot handle %s?%s (%s) for %r / %s / %s' % (
        environ.get('PATH_INFO'), qs, urllib.parse.unquote(qs), environ.get('HTTP_HOST'),
        environ.get('HTTP_X_FORWARDED_HOST'), environ.get('HTTP_X_FORWARDED_PROTO'))


def final_config(catchall=True):
    config = {'max_body_size': 64, 'max_memfile_size': 32, 'debug': False}
    if not catchall:
        config['catchall'] = False      # absent = the default (True)
    return config


def make_app(kind, catchall=True, history=None):
    """history None: constructed with the final (debug off) configuration.  Otherwise see the module docstring; for
    'on>served>off' the caller serves the debug-mode request and then calls app.setup(final_config(catchall))."""
    import ombott
    config = final_config(catchall)
    if history is None:
        app = ombott.Ombott(config)
    elif history == 'off>on>off':
        app = ombott.Ombott(config)
        app.setup(dict(config, debug=True))
        app.setup(final_config(catchall))
    elif history in ('on>off', 'on>routes>off', 'on>served>off'):
        app = ombott.Ombott(dict(config, debug=True))
        if history == 'on>off':
            app.setup(final_config(catchall))
    else:
        raise ValueError(history)

    @app.route('/int/{rest:path()}')
    def crash_int(rest):
        return 'item %d' % int(rest)    # ValueError: invalid literal for int() with base 10: '<the path text>'

    @app.route('/echo/{rest:path()}')
    def crash_echo(rest):
        raise ValueError(_request_text(app.request.environ))

    @app.route('/echoiter/{rest:path()}')
    def crash_echo_iter(rest):
        text = _request_text(app.request.environ)

        def gen():
            raise LookupError(text)
            yield 'never'
        return gen()

    @app.route('/m/{rest:path()}')
    def only_get(rest):
        return 'ok'

    @app.route('/body/{rest:path()}', method='POST')
    def body(rest):
        return app.request.body.read()

    @app.route('/crash/{rest:path()}')
    def crash(rest):
        raise ZeroDivisionError('constant text')

    @app.route('/iter/{rest:path()}')
    def crash_iter(rest):
        def gen():
            raise ZeroDivisionError('constant text')
            yield 'never'
        return gen()

    @app.route('/type/{rest:path()}')
    def bad_type(rest):
        return [object()]

    @app.route('/hdr/{rest:path()}')
    def bad_header(rest):
        app.response.headers['X-Unsendable'] = 'a\ud800'
        return 'ok'

    if history == 'on>routes>off':
        app.setup(final_config(catchall))

    if kind == 'crit404handler':
        @app.error(404)
        def e404(err):
            raise RuntimeError('constant text')
    if kind == 'crit500handler':
        @app.error(500)
        def e500(err):
            raise RuntimeError('constant text')
    return app


PREFIX = {'404': '/nf/', '405': '/m/', '400path': '/m/', '400chunk': '/body/', '413': '/body/', '500': '/crash/',
          '500iter': '/iter/', '500type': '/type/', 'crit404handler': '/nf/', 'crit500handler': '/crash/',
          'critheader': '/hdr/', '500int': '/int/', '500echo': '/echo/', '500echoiter': '/echoiter/'}


def make_request(kind, accept, where, payload):
    in_ = lambda w: payload if where in (w, 'all') else BENIGN
    path = PREFIX[kind] + in_('path')
    headers = {'Host': 'h' + in_('host')}
    if where in ('xfh', 'all'):
        headers['X-Forwarded-Host'] = 'f' + payload
    if where in ('proto', 'all'):
        headers['X-Forwarded-Proto'] = 'p' + payload
    if accept:
        headers['Accept'] = accept
    kw = dict(query='q=' + in_('query') + '&' + in_('query'), headers=headers)
    if kind == '400path':
        return make_environ(path.encode('utf8') + b'\xff\xfe', **kw)
    if kind == '405':
        return make_environ(path, 'POST', body=b'x', **kw)
    if kind == '400chunk':
        return make_environ(path, 'POST', body=b'zz\r\nnot chunked\r\n', chunked=True, **kw)
    if kind == '413':
        return make_environ(path, 'POST', body=b'x' * 200, **kw)
    return make_environ(path, **kw)


# ---------------------------------------------------------------------------------------------
# checks
# ---------------------------------------------------------------------------------------------
class _Skeleton(html.parser.HTMLParser):
    def __init__(self):
        super().__init__(convert_charrefs=True)
        self.items = []

    def handle_starttag(self, tag, attrs):
        self.items.append(['start', tag, [list(a) for a in attrs]])

    def handle_startendtag(self, tag, attrs):
        self.items.append(['startend', tag, [list(a) for a in attrs]])

    def handle_endtag(self, tag):
        self.items.append(['end', tag])

    def handle_comment(self, data):
        self.items.append(['comment'])

    def handle_decl(self, decl):
        self.items.append(['decl', decl.lower()])

    def handle_pi(self, data):
        self.items.append(['pi'])

    def unknown_decl(self, data):
        self.items.append(['unknown_decl'])


_SK_CACHE = {}


def skeleton(text, cache=False):
    if cache and text in _SK_CACHE:
        return _SK_CACHE[text]
    p = _Skeleton()
    p.feed(text)
    p.close()
    if cache:
        _SK_CACHE[text] = p.items
    return p.items


SIGNIFICANT = '<>"\'&'


def raw_fragments(payload, marker):
    """The (character, marker) pairs of the payload that must not survive verbatim."""
    frags = set()
    n = len(marker)
    i = payload.find(marker)
    while i >= 0:
        if i > 0 and payload[i - 1] in SIGNIFICANT:
            frags.add(payload[i - 1] + marker)
        j = i + n
        if j < len(payload) and payload[j] in '>"':
            # ('&' after the marker starts nothing; a "'" or '<' after it may be the page's own quote around the
            # URL / the page's own next tag - unescaped ones are still caught by the pair in front of a marker
            # and by X2/X3)
            frags.add(marker + payload[j])
        i = payload.find(marker, i + 1)
    return frags


def _spellings(f):
    return {f, urllib.parse.quote(f), urllib.parse.quote(f, safe=''), html.escape(f), html.escape(f, quote=False),
            f.replace("'", '&#039;'), f.replace('%', '%25')}


def format_problem(text, payload, marker):
    """X4: every occurrence of the marker in the page must sit where it sits in the payload relative to the
    format field it is glued to: directly behind a literal spelling of the field, or (for payloads
    marker+field+marker) directly in front of one that is followed by the marker again."""
    fields = [f for f in FORMATS if payload in (f + marker, marker + f + marker)]
    if not fields:
        return None
    f = fields[0]
    sp = _spellings(f)
    two = payload.startswith(marker)
    at = text.find(marker)
    while at >= 0:
        before = text[:at]
        after = text[at + len(marker):]
        ok = any(before.endswith(s) for s in sp)
        if not ok and two:
            ok = any(after.startswith(s + marker) for s in sp)
        if not ok:
            return dict(field=f, context=text[max(0, at - 60):at + 40])
        at = text.find(marker, at + 1)
    return None


def _is_json(res):
    return (res.header('Content-Type') or '').lower().startswith('application/json')


def check_page(res, ref_texts, payloads, json_requested):
    """payloads: list of (text, marker)."""
    if res.exc is not None or res.code is None or res.code < 400:
        return None                     # no error response was generated: nothing is claimed
    body = res.body if res.body is not None else b''
    critical = res.exc_info_calls > 0
    if _is_json(res) or (json_requested and not critical):
        try:
            json.loads(body.decode('utf8'))
        except Exception as e:
            return fail('J1.valid_json', status=res.status, content_type=res.header('Content-Type'),
                        error=repr(e), body=body[:300])
        return None
    text = body.decode('utf8', 'replace')
    for p, marker in payloads:
        for frag in sorted(raw_fragments(p, marker)):
            at = text.find(frag)
            if at >= 0:
                return fail('X1.raw_fragment', fragment=frag, payload=p, status=res.status,
                            context=text[max(0, at - 60):at + 60])
    sk = skeleton(text)
    same = [ref for ref in ref_texts if skeleton(ref, True) == sk]
    if not same:
        known = [it for ref in ref_texts for it in skeleton(ref, True)]
        extra = [it for it in sk if it not in known]
        return fail('X2.skeleton', status=res.status, unexpected=extra[:6], n_items=len(sk),
                    n_harmless=sorted({len(skeleton(r, True)) for r in ref_texts}), body_tail=text[-300:])
    counts = [text.count(ch) for ch in '<>"\'']
    if not any(counts == [ref.count(ch) for ch in '<>"\''] for ref in same):
        return fail('X3.count', chars='<>"\'', observed=counts,
                    harmless=[[ref.count(ch) for ch in '<>"\''] for ref in same][:3], status=res.status,
                    body_tail=text[-300:])
    for p, marker in payloads:
        bad = format_problem(text, p, marker)
        if bad:
            return fail('X4.format_field_evaluated', payload=p, status=res.status, **bad)
    return None


_REFS = []


def reference_pages():
    """Harmless error pages: what identical applications answer to the same kinds of request when the request
    text is a plain word (every kind, HTML rendering; cached per process - a constant of the tree under check)."""
    if not _REFS:
        seen = set()
        for k, catchall in [(k, True) for k in KINDS] + [(k, c) for c in (True, False) for k in ALL_KINDS]:
            r = serve(make_app(k, catchall), make_request(k, '', 'none', BENIGN))
            if r.body is not None and r.code is not None and r.code >= 400:
                t = r.body.decode('utf8', 'replace')
                if t not in seen:
                    seen.add(t)
                    _REFS.append(t)
    return _REFS


def run_case(case):
    kind, accept, where, payload = case['kind'], case['accept'], case['where'], case['payload']
    json_requested = accept.startswith('application/json')
    refs = reference_pages()
    if not refs:
        return None                     # this tree makes no error page for harmless requests: nothing to compare
    catchall = bool(case.get('catchall', 1))
    history = case.get('history')
    app = make_app(kind, catchall, history)
    payloads = [(payload, M)]
    if history == 'on>served>off':
        serve(app, make_request(kind, accept, 'all', PREV_PAYLOAD))     # debug mode: nothing is claimed for this page
        app.setup(final_config(catchall))
        payloads.append((PREV_PAYLOAD, M2))
    prev = case.get('prev')
    if prev:
        # the earlier request is of its own kind but served by this application
        r0 = serve(app, make_request(prev['kind'], accept, 'all', prev['payload']))
        bad = check_page(r0, refs, [(prev['payload'], M2)], json_requested)
        if bad:
            bad['request'] = 'previous'
            return bad
        payloads.append((prev['payload'], M2))
    res = serve(app, make_request(kind, accept, where, payload))
    if json_requested and res.exc_info_calls > 0 and res.exc is None and not _is_json(res):
        # JSON was asked for and the last-resort HTML page came back. That page is accepted as it is only if the
        # request ends there whatever the rendering (failing error handler, unsendable header) - not if asking
        # for JSON is what broke the error response.
        twin_app = make_app(kind, catchall, history)
        if history == 'on>served>off':
            twin_app.setup(final_config(catchall))
        twin = serve(twin_app, make_request(kind, '', where, payload))
        if twin.exc_info_calls == 0 and twin.exc is None:
            return fail('J1.valid_json', status=res.status, content_type=res.header('Content-Type'),
                        error='JSON requested: last-resort HTML page; the HTML rendering of the same request works',
                        body=(res.body or b'')[:300], errors=res.errors[-300:])
    bad = check_page(res, refs, payloads, json_requested)
    if bad is None and any(ch in payload for ch in LOOKALIKES):
        # compatibility look-alikes of the markup characters (fullwidth / small forms) are harmless as they are; a page that folds
        # them into the real characters after escaping turns request text into markup
        text = (res.body or b'').decode('utf8', 'replace')
        folded = payload
        for ch, real in LOOKALIKES.items():
            folded = folded.replace(ch, real)
        if folded != payload and folded in text:
            return fail('X5.lookalike_folded_into_markup', status=res.status, payload=payload, found=folded)
    return bad


LOOKALIKES = {'\uff1c': '<', '\uff1e': '>', '\ufe64': '<', '\ufe65': '>', '\uff02': '"', '\uff07': "'", '\uff06': '&'}
FINDINGS = {}
