"""C13 bounded stand-in / replay harness: body size limits and disk spooling bound what a request can consume.

Contract checked at run time on the REAL code (clauses are the sentences of the C13 statement, nothing more):

  L1 reject      payload larger than `max_body_size`  ->  rejected: `_body_read` raises BodySizeError (unit) /
                 the WSGI response is 413 and the handler never obtains the body, the forms or the files (end to
                 end), under Content-Length framing and under chunked framing with any chunk sizes.
  L2 read bound  ... and at that moment at most `max_body_size + max_memfile_size` PAYLOAD bytes have been taken
                 from the recording wsgi.input ("the limit plus one buffer"; under chunked framing the size lines
                 and CRLFs are framing, not payload, and are not counted - the weaker reading of the sentence).
  L3 accept      payload within the limit (or no limit configured) -> accepted: no BodySizeError / status 200 and
                 the handler reads exactly the bytes sent (twice: the buffered copy rewinds).
  S1 spool       an accepted body larger than `max_memfile_size` is NOT an in-memory buffer: it is an object
                 backed by an OS file (not io.BytesIO, not an un-rolled SpooledTemporaryFile), content identical.
                 (Nothing is demanded about bodies up to the threshold: the statement is silent.)
  T1 form text   urlencoded form text larger than `max_memfile_size` (body within `max_body_size`) is refused:
                 the response is not a success (>= 400) and the handler never obtains the forms.  Up to the
                 threshold it is accepted and parsed.
  T2 multipart   a multipart TEXT field whose value is larger than `max_memfile_size` is refused in the same
                 sense, and so is a form whose text values TOGETHER are larger than the threshold ("form text" is
                 read as for urlencoded forms, where it is the text of the whole form); a FILE part of any size is accepted (content identical through the upload's file object)
                 as long as headers + text values of all parts fit the threshold; in between (value fits, value +
                 part headers do not) both outcomes are accepted, and an accepted value must be exact.
  T3 not loaded  while forms/files are being parsed, no single read on the buffered body asks for more than
                 `max_memfile_size + 1` bytes (oversized text is refused *rather than loaded*).  Checked through a
                 recording proxy put in place of the cached body; silently skipped if the cache slot is not there.

Stated preconditions (DESIGN section 7): max_memfile_size >= 1 and, for chunked framing, every chunk-size line
(incl. CRLF) fits in max_memfile_size bytes; only such encodings are generated.
"""
import bisect
import io
import random
import tempfile

from bounded.common import FragStream, make_environ, serve, fail
from spec import chunked_spec as cs
from spec import multipart_spec as ms

BOUNDARY = 'BnD13'

BOUND = ('unit (_body_read): payload sizes {0,1,buff-1,buff,buff+1,10*buff, max-1,max,max+1,max+buff-1,max+buff,max+buff+1,'
         '10*max+7} x max_body_size {None,0,1,5,64} x max_memfile_size(=buffer) {1,2,3,4,16} x framing {Content-Length, '
         'chunked with chunk-size cycles {1},{buffer},{buffer+1},{1,buffer+1,3},{whole}} x read fragmentation {full, 1, 2, '
         '(1,2,3,full...)}; end to end through Ombott.__call__: raw bodies (same sizes, max {None,0,5,64}, buffer {4,16}), '
         'urlencoded forms (max {None,5,64,200}, buffer {4,16}), multipart forms with text/file parts (text sizes around '
         'the threshold and around threshold-minus-headers, file sizes {0,buffer+1,10*buffer}, orders text|file|text+file|'
         'file+text|text+text, buffer {64,128}, max {None, body, body-1, body//2}) x both framings x 3 fragmentations; '
         'exhaustive over that list; thorough adds every size 0..max+buffer+2 for max in {None,0..7} x buffer 1..6 (unit and raw) '
         'x 6 fragmentations; plus seeded random sizes/limits/chunkings/field lists (300 quick / 20000 thorough); '
         'blank file inputs (filename="") of threshold+1 and 10x threshold bytes, alone and after a text field: never loaded into memory as form text.')
NONTRIVIAL_RULE = ('distinct (kind, size(s), max_body_size, max_memfile_size, framing, chunk cycle, fragmentation); '
                   'non-trivial = non-empty payload and (a limit is configured or the payload exceeds the threshold)')


def exhaustive(tier):
    return False     # the listed space is enumerated completely; a seeded random part is added


def nontrivial(case):
    n = _payload_len(case)
    return n > 0 and (case['mx'] >= 0 or n > case['buff'])


# ---------------------------------------------------------------------------------------------
# generation
# ---------------------------------------------------------------------------------------------
def _sizes(mx, buff):
    s = {0, 1, buff - 1, buff, buff + 1, 10 * buff}
    if mx >= 0:
        s |= {mx - 1, mx, mx + 1, mx + buff - 1, mx + buff, mx + buff + 1, 10 * mx + 7}
    return sorted(x for x in s if x >= 0)


def _pieces_lens(n, cycle):
    """Chunk lengths for a payload of n bytes following the cycle (0 = everything that is left)."""
    out, left, k = [], n, 0
    while left > 0:
        c = cycle[k % len(cycle)] or left
        c = min(c, left)
        out.append(c)
        left -= c
        k += 1
    return out


def _fits(lens, buff):
    """Precondition: every size line incl. CRLF (and the final `0` line) fits in the buffer."""
    return buff >= 3 and all(len('%x' % c) + 2 <= buff for c in lens)


def _framings(n, buff):
    yield 'cl', []
    seen = set()
    for cycle in ([1], [buff], [buff + 1], [1, buff + 1, 3], [0]):
        lens = tuple(_pieces_lens(n, cycle))
        if lens in seen or not _fits(lens, buff):
            continue
        seen.add(lens)
        yield 'chunked', cycle


FRAGS = [([], 0), ([], 1), ([], 2), ([1, 2, 3], 0)]


def _mp_fields_space(buff):
    """Field lists [[kind, name, size], ...] around the threshold."""
    th = len(ms.part_headers(('text', 't', '')))          # header block of a text part
    tsizes = sorted({0, 1, buff - th - 4, buff - th - 3, buff - th + 1, buff - 1, buff, buff + 1, 10 * buff})
    tsizes = [x for x in tsizes if x >= 0]
    fsizes = [0, buff + 1, 10 * buff]
    for t in tsizes:
        yield [['text', 't', t]]
    for f in fsizes:
        yield [['file', 'f', f]]
    for t in (0, 1, 5, buff + 1):
        for f in fsizes:
            yield [['text', 't', t], ['file', 'f', f]]
            yield [['file', 'f', f], ['text', 't', t]]
    for t1, t2 in ((1, 1), (3, buff), (buff + 1, 1), (1, buff + 1), (buff // 2, buff // 2), (buff // 2 + 1, buff // 2 + 1),
                   (buff // 2, buff // 2 + 1)):
        yield [['text', 't', t1], ['text', 'u', t2]]
    # a blank file input (filename=""): neither a text field nor an upload with a name; its data must not be pulled into memory
    for f in (buff + 1, 10 * buff):
        yield [['blank', 'f', f]]
        yield [['text', 't', 1], ['blank', 'f', f]]


def gen_cases(tier, seed):
    quick = tier == 'quick'
    # unit level
    for mx in (-1, 0, 1, 5, 64):
        for buff in (1, 2, 3, 4, 16):
            for n in _sizes(mx, buff):
                for framing, cycle in _framings(n, buff):
                    for script, tail in FRAGS:
                        yield dict(kind='unit', n=n, mx=mx, buff=buff, framing=framing, cycle=cycle, script=script, tail=tail)
    # end to end, raw body
    for mx in (-1, 0, 5, 64):
        for buff in (4, 16):
            for n in _sizes(mx, buff):
                for framing, cycle in _framings(n, buff):
                    for script, tail in FRAGS[:3]:
                        yield dict(kind='raw', n=n, mx=mx, buff=buff, framing=framing, cycle=cycle, script=script, tail=tail)
    # end to end, urlencoded form text
    for mx in (-1, 5, 64, 200):
        for buff in (4, 16):
            for n in _sizes(mx, buff):
                if n < 2:
                    continue
                for framing, cycle in _framings(n, buff):
                    for script, tail in FRAGS[:3]:
                        yield dict(kind='urlenc', n=n, mx=mx, buff=buff, framing=framing, cycle=cycle, script=script, tail=tail)
    # end to end, multipart
    for buff in (64, 128):
        for fields in _mp_fields_space(buff):
            total = len(_mp_body(fields))
            for mx in (-1, total, total - 1, total // 2):
                for framing, cycle in _framings(total, buff):
                    if framing == 'chunked' and cycle == [1] and total > 300:
                        continue
                    for script, tail in FRAGS[:3]:
                        yield dict(kind='mp', fields=fields, mx=mx, buff=buff, framing=framing, cycle=cycle,
                                   script=script, tail=tail)
    if not quick:
        # dense small scope: every size up to limit + buffer + 2, every small limit and buffer
        for mx in (-1, 0, 1, 2, 3, 4, 5, 6, 7):
            for buff in (1, 2, 3, 4, 5, 6):
                for n in range(0, max(mx, 0) + buff + 3):
                    for framing, cycle in _framings(n, buff):
                        for script, tail in FRAGS + [([2, 1], 3), ([0, 1], 1)]:
                            for kind in ('unit', 'raw'):
                                yield dict(kind=kind, n=n, mx=mx, buff=buff, framing=framing, cycle=cycle, script=script,
                                           tail=tail)
    rnd = random.Random(seed)
    for _ in range(300 if quick else 20000):
        kind = rnd.choice(['unit', 'unit', 'raw', 'urlenc', 'mp'])
        buff = rnd.choice([3, 4, 5, 7, 16, 33, 100]) if kind != 'mp' else rnd.choice([64, 80, 128, 200])
        mx = rnd.choice([-1, rnd.randrange(0, 12), rnd.randrange(0, 300)])
        if kind == 'mp':
            fields = []
            for i in range(rnd.randrange(1, 4)):
                if rnd.random() < 0.5:
                    fields.append(['text', 't%d' % i, rnd.choice([0, 1, rnd.randrange(0, buff + 3), rnd.randrange(0, 4 * buff)])])
                else:
                    fields.append(['file', 'f%d' % i, rnd.choice([0, rnd.randrange(0, 4 * buff), 10 * buff])])
            n = len(_mp_body(fields))
            mx = rnd.choice([-1, n, n - 1, n + 1, rnd.randrange(0, n + 50)])
        else:
            base = rnd.choice([buff, max(mx, 0), max(mx, 0) + buff, rnd.randrange(0, 400)])
            n = max(0, base + rnd.choice([-2, -1, 0, 1, 2, 17]))
            if kind == 'urlenc':
                n = max(n, 2)
            fields = None
        cycle = rnd.choice([[1], [buff], [buff + 1], [0], [rnd.randrange(1, 40), rnd.randrange(1, 9)]])
        framing = 'chunked' if rnd.random() < 0.5 and _fits(_pieces_lens(n, cycle), buff) else 'cl'
        case = dict(kind=kind, mx=mx, buff=buff, framing=framing, cycle=cycle if framing == 'chunked' else [],
                    script=[rnd.choice([0, 1, 2, 5, 33]) for _ in range(rnd.randrange(5))], tail=rnd.choice([0, 0, 1, 3, 50]))
        if kind == 'mp':
            case['fields'] = fields
        else:
            case['n'] = n
        yield case


# ---------------------------------------------------------------------------------------------
# spec side: what is sent
# ---------------------------------------------------------------------------------------------
def _raw_payload(n):
    return bytes((i * 7 + 13) % 256 for i in range(n))


def _urlenc_payload(n):
    return b'a=' + bytes(97 + (i % 26) for i in range(n - 2))


def _mp_fieldlist(fields):
    out = []
    for kind, name, size in fields:
        if kind == 'text':
            out.append(('text', name, ''.join(chr(97 + (i * 3 + len(name)) % 26) for i in range(size))))
        elif kind == 'blank':
            out.append(('file', name, '', None, bytes(97 + (i * 7) % 26 for i in range(size))))
        else:
            out.append(('file', name, name + '.bin', None, bytes((i * 11 + 5) % 251 for i in range(size))))
    return out


def _mp_body(fields):
    return ms.encode(_mp_fieldlist(fields), BOUNDARY, final_crlf=True)


def _payload(case):
    if case['kind'] == 'mp':
        return _mp_body(case['fields'])
    if case['kind'] == 'urlenc':
        return _urlenc_payload(case['n'])
    return _raw_payload(case['n'])


def _payload_len(case):
    return len(_mp_body(case['fields'])) if case['kind'] == 'mp' else case['n']


class _Wire:
    """The bytes put on the stream and the map from stream offsets to payload bytes."""

    def __init__(self, payload, framing, cycle):
        self.payload = payload
        if framing == 'chunked':
            lens = _pieces_lens(len(payload), cycle)
            pieces, pos = [], 0
            for c in lens:
                pieces.append(payload[pos:pos + c])
                pos += c
            enc = cs.encode(pieces)
            self.wire = enc['wire']
            self.framing_offsets = enc['framing']
        else:
            self.wire = payload
            self.framing_offsets = []

    def payload_taken(self, consumed):
        """Number of payload bytes among the first `consumed` bytes of the wire."""
        return consumed - bisect.bisect_left(self.framing_offsets, consumed)


def _on_disk(body):
    """True iff the object is backed by an OS file rather than by memory."""
    if isinstance(body, (io.BytesIO, io.StringIO)):
        return False
    if isinstance(body, tempfile.SpooledTemporaryFile):
        return bool(getattr(body, '_rolled', False))
    try:
        return isinstance(body.fileno(), int)
    except Exception:
        return False


# ---------------------------------------------------------------------------------------------
# execution
# ---------------------------------------------------------------------------------------------
class _Recorder:
    """Stands in for the buffered body while forms are parsed: records the size of every read."""

    def __init__(self, inner):
        self.__dict__['_inner'] = inner
        self.__dict__['asked'] = []

    def read(self, n=-1, *a):
        self.asked.append(-1 if n is None else n)
        return self._inner.read(n, *a)

    def __getattr__(self, name):
        return getattr(self._inner, name)

    def __setattr__(self, name, value):
        setattr(self._inner, name, value)


def run_case(case):
    payload = _payload(case)
    wire = _Wire(payload, case['framing'], case['cycle'])
    stream = FragStream(wire.wire, case['script'], case['tail'] or None)
    mx = None if case['mx'] < 0 else case['mx']
    buff = case['buff']
    n = len(payload)
    too_big = mx is not None and n > mx
    bound = (mx or 0) + buff
    if case['kind'] == 'unit':
        return _run_unit(case, payload, wire, stream, mx, buff, too_big, bound)
    return _run_app(case, payload, wire, stream, mx, buff, too_big, bound)


def _run_unit(case, payload, wire, stream, mx, buff, too_big, bound):
    from ombott.request_pkg import body_mixin
    from ombott.request_pkg.errors import BodySizeError
    chunked = case['framing'] == 'chunked'
    body = None
    try:
        body = body_mixin._body_read(stream.read, buff, content_length=(-1 if chunked else len(payload)), chunked=chunked,
                                      max_body_size=mx)
        raised = None
    except BodySizeError as e:
        raised = e
    except Exception as e:  # noqa
        return fail('L.unexpected_exception', exc=repr(e), size=len(payload), max_body_size=mx)
    try:
        if too_big:
            if raised is None:
                return fail('L1.oversized_not_rejected', size=len(payload), max_body_size=mx)
            taken = wire.payload_taken(stream.consumed)
            if taken > bound:
                return fail('L2.read_beyond_limit_plus_buffer', payload_taken=taken, bound=bound, max_body_size=mx, buff=buff)
            return None
        if raised is not None:
            return fail('L3.within_limit_rejected', size=len(payload), max_body_size=mx)
        body.seek(0)
        out = body.read()
        if out != payload:
            return fail('L3.content', expected=payload, observed=out)
        if len(payload) > buff and not _on_disk(body):
            return fail('S1.not_spooled_to_disk', type=type(body).__name__, size=len(payload), threshold=buff)
        return None
    finally:
        if body is not None:
            try:
                body.close()
            except Exception:
                pass


def _run_app(case, payload, wire, stream, mx, buff, too_big, bound):
    import ombott
    kind = case['kind']
    app = ombott.Ombott({'max_body_size': mx, 'max_memfile_size': buff})
    seen = {}

    @app.route('/raw', method='POST')
    def raw():
        body = app.request.body
        seen['type'] = type(body).__name__
        seen['on_disk'] = _on_disk(body)
        seen['first'] = body.read()
        seen['second'] = app.request.body.read()
        return 'ok'

    @app.route('/forms', method='POST')
    def forms():
        req = app.request
        env = req.environ
        rec = None
        # T3 instrumentation: buffer the body first, then watch how the form parser reads it
        raw_body = req.body
        if env.get('ombott.request.body') is raw_body:
            rec = env['ombott.request.body'] = _Recorder(raw_body)
            seen['rec'] = rec
        f = req.forms
        fl = req.files
        seen['forms'] = {k: v for k, v in f.items()}
        seen['nfiles'] = len(fl)
        if rec is not None:
            seen['parse_reads'] = list(rec.asked)
        seen['files'] = {k: (u.raw_filename, u.file.read()) for k, u in fl.items()}
        return 'ok'

    ctype = {'raw': 'application/octet-stream', 'urlenc': 'application/x-www-form-urlencoded',
             'mp': ms.content_type_header(BOUNDARY)}[kind]
    path = '/raw' if kind == 'raw' else '/forms'
    chunked = case['framing'] == 'chunked'
    env = make_environ(path, 'POST', stream=stream, content_type=ctype, chunked=chunked,
                       content_length=(None if chunked else len(payload)))
    res = serve(app, env)
    got_data = any(k in seen for k in ('first', 'forms', 'files'))
    try:
        if res.exc is not None:
            return fail('L.exception_escaped', exc=repr(res.exc))
        # ---- the max-body clause, every content type
        if too_big:
            if res.code != 413:
                return fail('L1.oversized_not_413', status=res.status, size=len(payload), max_body_size=mx,
                            handler_got_data=got_data)
            if got_data:
                return fail('L1.oversized_delivered', seen=sorted(seen))
            taken = wire.payload_taken(stream.consumed)
            if taken > bound:
                return fail('L2.read_beyond_limit_plus_buffer', payload_taken=taken, bound=bound, max_body_size=mx, buff=buff)
            return None
        # ---- within the limit
        if kind == 'raw':
            if res.code != 200:
                return fail('L3.within_limit_rejected', status=res.status, size=len(payload), max_body_size=mx,
                            errors=res.errors[-300:])
            if seen.get('first') != payload or seen.get('second') != payload:
                return fail('L3.content', expected=payload, first=seen.get('first'), second=seen.get('second'))
            if len(payload) > buff and not seen.get('on_disk'):
                return fail('S1.not_spooled_to_disk', type=seen.get('type'), size=len(payload), threshold=buff)
            return None
        reads = seen['parse_reads'] if 'parse_reads' in seen else (seen['rec'].asked if 'rec' in seen else [])
        if any(r < 0 or r > buff + 1 for r in reads):
            return fail('T3.oversized_read_while_parsing', reads=reads[:20], threshold=buff)
        if kind == 'urlenc':
            if len(payload) > buff:
                if res.code is None or res.code < 400 or 'forms' in seen:
                    return fail('T1.oversized_form_text_not_refused', status=res.status, size=len(payload), threshold=buff)
                return None
            if res.code != 200:
                return fail('T1.form_text_within_threshold_rejected', status=res.status, size=len(payload), threshold=buff,
                            errors=res.errors[-300:])
            exp = {'a': payload[2:].decode('latin1')}
            if seen.get('forms') != exp or seen.get('nfiles') != 0:
                return fail('T1.form_content', expected=exp, observed=seen.get('forms'), nfiles=seen.get('nfiles'))
            return None
        # multipart
        fl = _mp_fieldlist(case['fields'])
        blanks = [f for f in fl if f[0] == 'file' and f[2] == '']
        if blanks:
            # only the memory clause is judged for a blank file input: no form value may be text longer than the threshold
            big = {k: len(v) for k, v in (seen.get('forms') or {}).items() if isinstance(v, (str, bytes)) and len(v) > buff}
            if big:
                return fail('T4.blank_file_part_loaded_into_memory', sizes=big, threshold=buff, status=res.status)
            return None
        texts = [f for f in fl if f[0] == 'text']
        files = [f for f in fl if f[0] == 'file']
        biggest_text = max([len(f[2].encode()) for f in texts] or [0])
        in_memory = sum(len(ms.part_headers(f)) + 4 for f in fl) + sum(len(f[2].encode()) for f in texts)
        accepted = res.code == 200
        if biggest_text > buff:
            if res.code is None or res.code < 400 or 'forms' in seen:
                return fail('T2.oversized_text_field_not_refused', status=res.status, text_size=biggest_text, threshold=buff)
            return None
        total_text = sum(len(f[2].encode()) for f in texts)
        if total_text > buff:
            if res.code is None or res.code < 400 or 'forms' in seen:
                return fail('T2.oversized_total_form_text_not_refused', status=res.status, total_text=total_text,
                            sizes=[len(f[2]) for f in texts], threshold=buff)
            return None
        if in_memory <= buff and not accepted:
            return fail('T2.form_within_threshold_rejected', status=res.status, in_memory=in_memory, threshold=buff,
                        errors=res.errors[-300:])
        if accepted:
            exp_forms = {f[1]: f[2] for f in texts}
            exp_files = {f[1]: (f[2], f[4]) for f in files}
            if seen.get('forms') != exp_forms:
                return fail('T2.text_content', expected=exp_forms, observed=seen.get('forms'))
            if seen.get('files') != exp_files:
                return fail('T2.file_content', expected={k: len(v[1]) for k, v in exp_files.items()},
                            observed={k: (v[0], len(v[1])) for k, v in (seen.get('files') or {}).items()})
        elif res.code is None or res.code < 400 or 'forms' in seen:
            return fail('T2.neither_accepted_nor_refused', status=res.status)
        return None
    finally:
        b = env.get('ombott.request.body')
        inner = getattr(b, '_inner', b)
        for o in (inner, env.get('wsgi.input')):
            try:
                o.close()
            except Exception:
                pass
