"""C10 bounded stand-in / replay harness: application objects in one process are independent of each other.

Contract checked at run time on the REAL objects (statement of C10, nothing more).  Every request carries its own
identity `rid` in path, query, header and cookie, and its handler writes `rid` into its response (status code of its
own, X-Rid / X-App headers, cookie k<rid>); so what an application's request/response objects must show is known BY
CONSTRUCTION from the request that was sent to it -- no model of ombott is involved.

  I1 view      while a request of application X is being served on a thread (its handler is running, or it is on the
               call stack below a nested call, or its lazily produced body has not been consumed yet), X.request
               (environ identity, path, query string, header, cookie) and X.response (status, X-Rid, X-App, cookie)
               show X's own request/response on that thread.  Checked for EVERY such application after every foreign
               operation: a request served by another application (nested as a WSGI callable inside the handler, or
               started/finished at top level in between, or running on another thread), `request.copy()` (own or
               another application's request object; the copy is then modified), `ombott.Ombott()` constructed inside
               a handler or on another thread, a new application constructed and used inside a handler.
  I4 forward   `fwd`: the handler of X copies its request (X.request.copy()), re-targets the copy through the item interface
               (PATH_INFO, QUERY_STRING, x.rid; with `rewrite` also HTTP_X_ID and HTTP_COOKIE) and serves application Y with
               THE COPY'S ENVIRON, nested in its handler -- with (`look`) or without an earlier read of X.request.headers /
               cookies.  While Y's handler runs, Y.request must show what that environ says: request.app is Y (not X), path /
               query of the re-targeted request, header X-Id and cookie cid as the copy's environ holds them (the rewritten
               ones, or X's when they were not rewritten); and X's objects keep showing X's request (request.app is X).
               Reported as I1.view_changed with the extra fields `app_is_mine`, `xid`, `cid`.
  I1 listeners `listen`: the handler of X registers an 'env_changed' listener (request.on) on X's request object, on a copy of
               it, or on a copy of another application's request; the listener writes a marker ('c10.mark' = X) into the
               request it is called with and, when that is not the object it was registered on, rewrites its query string.
               `touch`: the handler of Y changes a key of ITS request through the item interface (QUERY_STRING to a value of
               its own, or HTTP_X_TOUCH).  Y's request must then show exactly what Y wrote: the query string Y set (also in
               the body Y's handler builds at its end) and no marker of another application (field `mark`; a marker of Y's
               own listener is Y's own business and accepted).  Reported as I1.view_changed / I2.response_not_its_own.
  I3 own copy  the same, when the only operation before the change was X copying its OWN request (reported under a
               separate clause id: the copy is not X's request object, X's must keep showing X's request).
  I0 raised    none of these operations raises (constructing an application or copying a request while another
               application is serving must simply work).
  I2 response  every response that reaches the server (nested ones included) is the one its handler built: status,
               X-Rid, X-App, exactly its own Set-Cookie, Content-Length and body (the body quotes request.path /
               query_string read at the very end of the handler), one start_response call, no exception.

Applications: fresh `ombott.Ombott()` objects A, B, C and D = the module-level default application `ombott.app`
(its route is (re)installed with overwrite=True; its request/response are `ombott.request` / `ombott.response`).

One thread: programs are executed directly.  Two threads: bounded/cases/_threads_common.Sched forces the
interleaving (token hand-over with threading.Event at explicit points in handlers / body generators /
start_response, or additionally at every traced statement of the ombott package); a `stress` mode races the
threads freely with sys.setswitchinterval(1e-6).
"""
import itertools
import random
import sys
import threading

from bounded.common import make_environ, fail
from bounded.cases import _threads_common as tc

BOUND = ('arrangements of 2..3 applications out of {A, B, C fresh, D = module-level default app}, outer application first: '
         '(A,B) (D,A) (A,D) (A,B,C) (A,B,D) (D,A,B). ONE THREAD: the outer handler runs every script of length 1..2 (quick) / '
         '1..3 (thorough) over the operation alphabet {nested call of each other application with an inner script out of '
         '{nothing, copy, new Ombott(), copy of the outer request, nested call of the third application, new application '
         'served inside}, request.copy() + modification of the copy, Ombott(), new application served inside (inner: nothing '
         '| copy)}; alternating top-level calls with lazily consumed bodies: two requests on two applications, all 6 orders '
         'of start/start/drain/drain x inner scripts {nothing, copy, new}; exhaustive. TWO THREADS: thread 0 serves the outer '
         'application with script out of {nothing, copy, new, nested call of the other application, new served inside}, '
         'thread 1 serves another application with script out of the same set, or only constructs Ombott() (quick: without `new served '
         'inside`): ALL interleavings of the explicit points when there are <= 300 (quick) / 3500 (thorough) of them per program '
         'pair, else every schedule with <= 3 hand-overs; statement granularity (every traced line of the ombott package is a '
         'hand-over point) with one preemption at EVERY statement of thread 0 (quick: arrangements (A,B) and (D,A), thread 1 in '
         '{Ombott(), plain request, request + copy}; thorough: all arrangements and programs, plus every 3rd statement of thread 1); '
         'free race 3 cases x 30 rounds (quick) / 12 x 150 (thorough). FORWARDING over Request.copy() (one thread, every '
         'arrangement, every other application Y as target): X copies its request, re-targets the copy and serves Y with the '
         'environ of the copy x header/cookie rewrite on the copy {no, yes} x earlier read of X.request.headers/cookies {no, yes} x '
         'lazy body of Y {no, yes} x inner script of Y {nothing, copy, forward on to the third application (rewrite+look / '
         'neither)} x before it {nothing, copy, plain nested call of Y, another forward} x outer body lazy {no, yes}; two '
         'threads: thread 0 forwards (rewrite, look) while thread 1 serves the other application, all interleavings of the explicit points. '
         'LISTENERS (request.on(env_changed) / item assignment on the request): every arrangement x every other application Y x '
         'listener registered on {own request, copy of it, copy of the other application\'s request} x changed key {QUERY_STRING, '
         'HTTP_X_TOUCH} in the scripts: X listens then Y (nested / forwarded with the copy\'s environ / a new application served '
         'inside) touches; nested Y listens then X touches; X listens and touches, then Y touches; top level: Y touches, X listens '
         '(and touches), Y touches again (plain and with lazily consumed bodies, a later-constructed application touching last); two '
         'threads (arrangements (A,B) (D,A) (A,D)): thread 0 serves X which listens {own, copy}, thread 1 serves Y which touches '
         'QUERY_STRING, all interleavings of the explicit points.')
NONTRIVIAL_RULE = ('distinct (mode, arrangement, programs, schedule); non-trivial = at least one foreign operation happens while '
                   'a request is in progress (one thread), resp. at least one thread is preempted inside its request (two threads)')

CONFIGS = [['A', 'B'], ['D', 'A'], ['A', 'D'], ['A', 'B', 'C'], ['A', 'B', 'D'], ['D', 'A', 'B']]
CODES = [200, 201, 202, 203, 206, 207]


def exhaustive(tier):
    return False


# ---------------------------------------------------------------------------------------------
# programs (plain JSON): op = [name, ...]
#   handler ops : ['call', app, rid, script, lazy]  ['copy']  ['copyof', app]  ['new']  ['newserve', rid, script]
#                 ['listen', 'own' | 'copy']  ['listen', 'copyof', app]  ['touch', 'QUERY_STRING' | 'HTTP_X_TOUCH']
#                 ['fwd', app, rid, script, lazy, rewrite, look]   (app is served with the environ of a copy of the request)
#   top level   : ['serve', app, rid, script, lazy]  ['start', app, rid, script]  ['drain', rid]  ['new']
# ---------------------------------------------------------------------------------------------
class _Rids:
    def __init__(self):
        self.n = 0

    def __call__(self):
        self.n += 1
        return 'q%d' % self.n


def _inner_scripts(cfg, me, outer, rid):
    """Scripts of a nested handler of application `me` called from `outer`."""
    third = [a for a in cfg if a not in (me, outer)]
    yield []
    yield [['copy']]
    yield [['new']]
    yield [['copyof', outer]]
    yield [['newserve', rid(), []]]
    for z in third:
        yield [['call', z, rid(), [], 0]]
        yield [['call', z, rid(), [['copy']], 0]]


def _alphabet(cfg, rid):
    outer = cfg[0]
    ops = [['copy'], ['new'], ['newserve', rid(), []], ['newserve', rid(), [['copy']]]]
    for y in cfg[1:]:
        for inner in _inner_scripts(cfg, y, outer, rid):
            ops.append(['call', y, rid(), inner, 0])
        ops.append(['call', y, rid(), [], 1])     # nested response with a lazily produced body
    return ops


def _fresh_rids(op, rid):
    """Copy of an op with new request ids (an op may be used twice in one script)."""
    if op[0] in ('call', 'fwd'):
        return [op[0], op[1], rid(), [_fresh_rids(o, rid) for o in op[3]]] + list(op[4:])
    if op[0] == 'newserve':
        return ['newserve', rid(), [_fresh_rids(o, rid) for o in op[2]]]
    return list(op)


def _walk(ops):
    for op in ops:
        yield op
        if op[0] in ('call', 'serve', 'start', 'fwd'):
            yield from _walk(op[3])
        elif op[0] == 'newserve':
            yield from _walk(op[2])


def _foreign_ops(program):
    return sum(1 for op in _walk(program) if op[0] in ('call', 'copy', 'copyof', 'new', 'newserve', 'fwd', 'listen'))


def nontrivial(case):
    if case['mode'] == 'one':
        tops = sum(1 for op in case['threads'][0] if op[0] in ('serve', 'start'))
        return _foreign_ops(case['threads'][0]) > 0 or tops > 1
    if case['mode'] == 'stress':
        return True
    return _preemptions(case['segs'], case['pts'], case['trace']) > 0


def _preemptions(segs, pts, traced):
    left = list(pts)
    used = [0] * len(pts)
    n = 0
    for t, k in segs:
        if left[t] <= 0 and used[t]:
            continue
        if k < 0 or k >= left[t]:
            left[t] = 0
            used[t] = max(used[t], 1)
            continue
        left[t] -= k + 1
        used[t] += k + 1
        if used[t] > (1 if traced else 0):
            n += 1
    return n


def _two_thread_programs(cfg, quick=False):
    """(program of thread 0, program of thread 1, statement-level too?) triples."""
    outer, other = cfg[0], cfg[1]
    rid = _Rids()

    def scripts(me, peer):
        out = [[], [['copy']], [['new']], [['call', peer, rid(), [], 0]]]
        if not quick:
            out.append([['newserve', rid(), []]])
        return out
    for s0 in scripts(outer, other):
        t0 = [['serve', outer, rid(), s0, 0]]
        yield t0, [['new']], True
        for k, s1 in enumerate(scripts(other, cfg[-1] if len(cfg) > 2 else outer)):
            yield t0, [['serve', other, rid(), s1, 0]], (k < 2 or not quick)
    # lazily produced bodies on both sides
    yield [['serve', outer, rid(), [], 1]], [['serve', other, rid(), [['copy']], 1]], not quick
    # thread 0 forwards a copy of its request to the other application, thread 1 serves that application too
    yield [['serve', outer, rid(), [['fwd', other, rid(), [], 0, 1, 1]], 0]], [['serve', other, rid(), [], 0]], False
    if not quick:
        yield [['serve', outer, rid(), [['fwd', other, rid(), [['copy']], 1, 0, 1]], 0]], [['serve', other, rid(), [['copy']], 0]], False
    # thread 0 registers a listener on its request (or a copy), thread 1 changes a key of the other application's request
    if not quick or cfg in (['A', 'B'], ['D', 'A'], ['A', 'D']):
        for li in LISTEN_ON:
            yield [['serve', outer, rid(), [li], 0]], [['serve', other, rid(), [['touch', 'QUERY_STRING']], 0]], False


def _forward_cases(cfg):
    """one thread: the outer application serves another one with the environ of a copy of its own request"""
    outer = cfg[0]
    for y in cfg[1:]:
        third = [a for a in cfg if a not in (outer, y)]
        for rewrite, look, lazy in itertools.product((0, 1), repeat=3):
            inners = [[], [['copy']]]
            for z in third:
                inners.append([['fwd', z, 'i1', [], 0, 1, 1]])
                inners.append([['fwd', z, 'i1', [['copy']], 0, 0, 0]])
            for inner in inners:
                fwd = ['fwd', y, 'f1', inner, lazy, rewrite, look]
                for pre in ([], [['copy']], [['call', y, 'p1', [], 0]], [['fwd', y, 'p1', [], 0, 1 - rewrite, look]]):
                    for olazy in (0, 1):
                        r2 = _Rids()
                        script = [_fresh_rids(o, r2) for o in pre + [fwd]]
                        yield dict(mode='one', apps=cfg, threads=[[['serve', outer, r2(), script, olazy]]])


LISTEN_ON = [['listen', 'own'], ['listen', 'copy']]
TOUCH = [['touch', 'QUERY_STRING'], ['touch', 'HTTP_X_TOUCH']]


def _listener_cases(cfg):
    """one thread: an application registers an env_changed listener on its request (or a copy), another one changes a key
    of its own request afterwards.  (No application is entered again while one of its requests is in progress.)"""
    x = cfg[0]
    for y in cfg[1:]:
        third = [a for a in cfg if a not in (x, y)]
        for li in LISTEN_ON + [['listen', 'copyof', x]]:
            for to in TOUCH:
                scripts = []
                if li[1] != 'copyof':             # X listens, then Y changes its request
                    scripts += [
                        [li, ['call', y, 'n1', [to], 0]],
                        [li, ['call', y, 'n1', [to], 1]],
                        [li, to, ['call', y, 'n1', [to], 0], to],
                        [li, ['newserve', 'n1', [to]]],
                        [li, ['fwd', y, 'n1', [to], 0, 1, 1]],
                        [li, ['fwd', y, 'n1', [to], 1, 0, 0]],
                        [li, ['call', y, 'n1', [['copy'], to, ['newserve', 'n2', [to]]], 0]],
                    ]
                    for z in third:
                        scripts.append([li, ['call', y, 'n1', [to, ['call', z, 'n2', [to], 0]], 0]])
                # nested Y listens (own request, a copy, a copy of X's request), then X changes its request
                scripts += [
                    [['call', y, 'n1', [li], 0], to],
                    [['call', y, 'n1', [li, to], 0], to, ['copy'], to],
                    [['newserve', 'n1', [li]], to],
                ]
                for z in third:
                    scripts.append([['call', y, 'n1', [li], 0], ['call', z, 'n2', [to], 0], to])
                for script in scripts:
                    r2 = _Rids()
                    yield dict(mode='one', apps=cfg, threads=[[['serve', x, r2(), [_fresh_rids(o, r2) for o in script], 0]]])
                if li[1] == 'copyof':
                    continue
                # top level, one request after the other (the later ones must be as the first one was)
                yield dict(mode='one', apps=cfg, threads=[[['serve', y, 'q1', [to], 0], ['serve', x, 'q2', [li, to], 0],
                                                           ['serve', y, 'q3', [to], 0], ['serve', x, 'q4', [to], 0],
                                                           ['serve', y, 'q5', [['newserve', 'q6', [to]], to], 0]]])
                for drains in (['q1', 'q2'], ['q2', 'q1']):
                    yield dict(mode='one', apps=cfg, threads=[[['start', x, 'q1', [li]], ['start', y, 'q2', [to]]]
                                                              + [['drain', q] for q in drains]])


def gen_cases(tier, seed):
    quick = tier == 'quick'
    maxlen = 2 if quick else 3
    # ---- one thread, listeners on request objects
    for cfg in CONFIGS:
        for c in _listener_cases(cfg):
            yield c
    # ---- one thread, forwarding over Request.copy()
    for cfg in CONFIGS:
        for c in _forward_cases(cfg):
            yield c
    # ---- one thread, nested
    for cfg in CONFIGS:
        rid = _Rids()
        alpha = _alphabet(cfg, rid)
        for n in range(1, maxlen + 1):
            for combo in itertools.product(range(len(alpha)), repeat=n):
                r2 = _Rids()
                script = [_fresh_rids(alpha[i], r2) for i in combo]
                for lazy in ((0, 1) if n == 1 else (0,)):
                    yield dict(mode='one', apps=cfg, threads=[[['serve', cfg[0], r2(), script, lazy]]])
    # ---- one thread, alternating top-level calls with lazily consumed bodies
    orders = [o for o in itertools.permutations(['s1', 's2', 'd1', 'd2'])
              if o.index('s1') < o.index('d1') and o.index('s2') < o.index('d2')]
    inner = [[], [['copy']], [['new']]]
    for cfg in CONFIGS:
        for x, y in itertools.permutations(cfg, 2):
            for i1, i2 in itertools.product(range(len(inner)), repeat=2):
                for o in orders:
                    steps = {'s1': ['start', x, 'q1', inner[i1]], 's2': ['start', y, 'q2', inner[i2]],
                             'd1': ['drain', 'q1'], 'd2': ['drain', 'q2']}
                    yield dict(mode='one', apps=cfg, threads=[[steps[k] for k in o]])
        # plain alternation A, B, A, B with a third request inside
        a, b = cfg[0], cfg[1]
        yield dict(mode='one', apps=cfg, threads=[[['serve', a, 'q1', [], 0], ['serve', b, 'q2', [], 0],
                                                   ['serve', a, 'q3', [['call', b, 'q4', [], 0]], 0],
                                                   ['serve', b, 'q5', [['call', a, 'q6', [['copy']], 0]], 0]]])
    # ---- two threads
    cap = 300 if quick else 3500
    for cfg in CONFIGS:
        for t0, t1, stmt in _two_thread_programs(cfg, quick):
            p0, p1 = _count(cfg, t0, False), _count(cfg, t1, False)
            if tc_comb(p0 + p1 + 2, p0 + 1) <= cap:
                for segs in tc.interleavings([p0 + 1, p1 + 1]):
                    yield dict(mode='two', apps=cfg, threads=[t0, t1], trace=0, segs=segs, pts=[p0, p1])
            else:
                for i in range(0, p0):
                    for j in range(0, max(p1, 1)):
                        yield dict(mode='two', apps=cfg, threads=[t0, t1], trace=0, segs=[[0, i], [1, j], [0, -1], [1, -1]],
                                   pts=[p0, p1])
                        for k in range(0, p0 - i - 1):
                            yield dict(mode='two', apps=cfg, threads=[t0, t1], trace=0,
                                       segs=[[0, i], [1, j], [0, k], [1, -1], [0, -1]], pts=[p0, p1])
            if not stmt or (quick and cfg not in (['A', 'B'], ['D', 'A'])):
                continue
            n0, n1 = _count(cfg, t0, True), _count(cfg, t1, True)
            for i in range(1, n0):
                yield dict(mode='two', apps=cfg, threads=[t0, t1], trace=1, segs=[[0, i], [1, -1], [0, -1]], pts=[n0, n1])
            if not quick:
                for j in range(1, n1, 3):
                    yield dict(mode='two', apps=cfg, threads=[t0, t1], trace=1, segs=[[1, j], [0, -1], [1, -1]], pts=[n0, n1])
    # ---- free race
    rnd = random.Random(seed)
    for r in range(3 if quick else 12):
        cfg = CONFIGS[r % len(CONFIGS)]
        progs = list(_two_thread_programs(cfg))
        t0, t1, _stmt = progs[rnd.randrange(len(progs))]
        yield dict(mode='stress', apps=cfg, threads=[t0, t1], rounds=30 if quick else 150, r=r)


def tc_comb(n, r):
    import math
    return math.comb(n, r)


# ---------------------------------------------------------------------------------------------
# the world of one case
# ---------------------------------------------------------------------------------------------
def _safe(fn):
    try:
        return fn()
    except BaseException as e:  # noqa - the observation is the exception
        return 'EXC:' + type(e).__name__


class World:
    def __init__(self, cfg, programs, sched=None):
        import ombott
        self.ombott = ombott
        self.sched = sched
        self.apps = {}
        self.reqs = {}
        self.keep = []            # copies and applications created on the way stay alive until the case ends
        self.failure = None
        self.tl = threading.local()
        self.lock = threading.Lock()
        self.reg_lock = threading.Lock()
        self.nnew = 0
        self.closed = False
        self.removers = []
        self.uses_marks = any(op[0] in ('listen', 'touch') for prog in programs for op in _walk(prog))
        self.has_fwd = any(op[0] == 'fwd' for prog in programs for op in _walk(prog))
        for name in cfg:
            app = ombott.app if name == 'D' else ombott.Ombott()
            self.install(name, app)
        code = 0
        for prog in programs:
            for op in _walk(prog):
                if op[0] in ('call', 'serve', 'start', 'fwd'):
                    _, name, rid, script, *rest = op
                    lazy = (rest[0] if rest else 0) or op[0] == 'start'
                    self.register(rid, name, script, lazy, CODES[code % len(CODES)])
                    code += 1
                elif op[0] == 'newserve':
                    self.register(op[1], None, op[2], 0, CODES[code % len(CODES)])
                    code += 1

    def install(self, name, app):
        # Route REGISTRATION is not part of the statement (it is about request/response objects) and is not safe to
        # run concurrently on two applications (the rule parser is one object per process), so it is kept atomic:
        # no hand-over point inside, and a lock for the free race.
        self.apps[name] = app
        with self.reg_lock:
            old = sys.gettrace()
            sys.settrace(None)
            try:
                app.route('/c10/:rid', 'GET', (lambda rid, _n=name: self.handle(_n, rid)), overwrite=True)
            finally:
                sys.settrace(old)

    def register(self, rid, name, script, lazy, code):
        env = make_environ('/c10/' + rid, query='id=' + rid, headers={'X-Id': rid, 'Cookie': 'cid=' + rid},
                           extra={'x.rid': rid})
        self.reqs[rid] = dict(app=name, script=script, lazy=lazy, code=code, env=env)

    # ------------------------------------------------------------ bookkeeping per thread
    def stack(self):
        if not hasattr(self.tl, 'stack'):
            self.tl.stack = []
            self.tl.open = []
            self.tl.last = None
        return self.tl.stack

    def point(self, label):
        if self.sched is not None:
            self.sched.point(label)

    def fail(self, clause, **kw):
        with self.lock:
            if self.failure is None:
                self.failure = fail(clause, **kw)

    # ------------------------------------------------------------ the contract: views by construction
    def expected_view(self, fr):
        rid = fr['rid']
        exp = dict(env_is_mine=True, marker=rid, path='/c10/' + rid, qs=self.reqs[rid].get('qs', 'id=' + rid),
                   xid=fr.get('xid', rid), cid=fr.get('cid', rid))
        if self.uses_marks:
            exp['mark'] = None                   # no marker written by a listener of ANOTHER application
        if self.has_fwd:
            exp['app_is_mine'] = True
        if fr.get('defer_headers'):
            del exp['xid'], exp['cid']           # this request's headers must not be looked at before it forwards
        if fr['stage'] == 'entry':
            exp.update(code=200, x_rid=None, x_app=None, cookie=False)
        else:
            exp.update(code=fr['code'], x_rid=rid, x_app=fr['name'], cookie=True)
        return exp

    def read_view(self, fr):
        rq, rs = fr['app'].request, fr['app'].response
        rid = fr['rid']
        defer = bool(fr.get('defer_headers'))
        got = dict(
            env_is_mine=_safe(lambda: rq.environ is fr['env']),
            marker=_safe(lambda: rq.get('x.rid')),
            path=_safe(lambda: rq.path),
            qs=_safe(lambda: rq.query_string),
            xid=None if defer else _safe(lambda: rq.headers.get('X-Id')),
            cid=None if defer else _safe(lambda: rq.get_cookie('cid')),
            code=_safe(lambda: rs.status_code),
            x_rid=_safe(lambda: rs.headers.get('X-Rid')),
            x_app=_safe(lambda: rs.headers.get('X-App')),
            cookie=_safe(lambda: any(k == 'Set-Cookie' and v.startswith('k%s=v%s' % (rid, rid)) for k, v in rs.headerlist)),
        )
        if defer:
            del got['xid'], got['cid']
        if self.has_fwd:
            got['app_is_mine'] = _safe(lambda: rq.app is fr['app'])
        if self.uses_marks:
            mark = _safe(lambda: rq.get('c10.mark'))
            got['mark'] = None if mark == fr['name'] else mark      # its own listener's marker is its own business
        return got

    def check(self, tag):
        """Every request in progress on this thread must still be shown by its application's objects."""
        self.stack()
        last = self.tl.last
        for fr in self.tl.open + self.tl.stack:
            exp, got = self.expected_view(fr), self.read_view(fr)
            if exp != got:
                own_copy = bool(last and last[0] == 'copy' and last[1] == fr['name'])
                self.fail('I3.own_view_changed_by_own_copy' if own_copy else 'I1.view_changed',
                          at=tag, subject_app=fr['name'], subject_rid=fr['rid'], stage=fr['stage'],
                          last_operation=(list(last) if last else None),
                          fields={k: dict(expected=exp[k], observed=got[k]) for k in exp if exp[k] != got[k]})
                return

    def check_response(self, rid, rec, body):
        spec = self.reqs[rid]
        name = spec['app']
        exp_body = ('%s:%s:/c10/%s:%s' % (name, rid, rid, spec.get('qs', 'id=' + rid))).encode()
        hd = {}
        for k, v in rec['headers'] or []:
            hd.setdefault(k, []).append(v)
        problems = {}
        if rec['exc'] is not None:
            problems['exception'] = rec['exc']
        if rec['calls'] != 1:
            problems['start_response_calls'] = rec['calls']
        if _safe(lambda: int(str(rec['status']).split()[0])) != spec['code']:
            problems['status'] = dict(expected=spec['code'], observed=rec['status'])
        if hd.get('X-Rid') != [rid]:
            problems['X-Rid'] = dict(expected=[rid], observed=hd.get('X-Rid'))
        if hd.get('X-App') != [name]:
            problems['X-App'] = dict(expected=[name], observed=hd.get('X-App'))
        ck = hd.get('Set-Cookie', [])
        if len(ck) != 1 or not ck[0].startswith('k%s=v%s' % (rid, rid)):
            problems['Set-Cookie'] = dict(expected='k%s=v%s' % (rid, rid), observed=ck)
        if not spec['lazy'] and hd.get('Content-Length') != [str(len(exp_body))]:
            problems['Content-Length'] = dict(expected=str(len(exp_body)), observed=hd.get('Content-Length'))
        if body != exp_body:
            problems['body'] = dict(expected=exp_body, observed=body)
        if problems:
            self.fail('I2.response_not_its_own', app=name, rid=rid, problems=problems,
                      last_operation=(list(self.tl.last) if getattr(self.tl, 'last', None) else None))

    # ------------------------------------------------------------ serving
    def call_app(self, rid):
        """Call the application like a server does; -> (record, iterator over the body)."""
        spec = self.reqs[rid]
        app = self.apps[spec['app']]
        rec = dict(calls=0, status=None, headers=None, exc=None)

        def start_response(status, headers, exc_info=None):
            self.point('start_response')
            rec['calls'] += 1
            rec['status'] = status
            rec['headers'] = list(headers)
            return lambda data: None
        try:
            result = app(spec['env'], start_response)
            return rec, result
        except BaseException as e:  # noqa - recorded
            if isinstance(e, (KeyboardInterrupt, SystemExit)):
                raise
            rec['exc'] = repr(e)
            return rec, []

    def drain(self, rid, rec, result):
        chunks = []
        try:
            for c in result:
                chunks.append(c)
            if hasattr(result, 'close'):
                result.close()
        except BaseException as e:  # noqa - recorded
            if isinstance(e, (KeyboardInterrupt, SystemExit)):
                raise
            rec['exc'] = repr(e)
        body = b''.join(chunks) if all(isinstance(c, bytes) for c in chunks) else repr(chunks)
        self.check_response(rid, rec, body)

    def serve(self, rid):
        rec, result = self.call_app(rid)
        self.drain(rid, rec, result)

    # ------------------------------------------------------------ the generic handler of every application
    def handle(self, name, rid):
        spec = self.reqs[rid]
        app = self.apps[name]
        fr = dict(app=app, name=name, rid=rid, env=spec['env'], code=spec['code'], stage='entry')
        if 'xid' in spec:                          # served with the environ of a copy: the headers that environ holds
            fr['xid'], fr['cid'] = spec['xid'], spec['cid']
        if any(op[0] == 'fwd' and not op[6] for op in spec['script']):
            fr['defer_headers'] = True
        st = self.stack()
        st.append(fr)
        try:
            self.point('entry')
            self.check('entry of %s/%s' % (name, rid))
            rs = app.response
            rs.status = spec['code']
            rs.headers['X-Rid'] = rid
            rs.headers['X-App'] = name
            rs.set_cookie('k' + rid, 'v' + rid)
            fr['stage'] = 'set'
            self.check('after %s/%s wrote its response' % (name, rid))
            for op in spec['script']:
                self.point('op')
                try:
                    self.do_op(fr, op)
                except Exception as e:  # noqa - reported
                    self.fail('I0.operation_raised', operation=op[0], inside='%s/%s' % (name, rid), exc=repr(e))
                self.check('in %s/%s after %s' % (name, rid, op[0]))
            self.point('ret')
            self.check('end of %s/%s' % (name, rid))
            rq = app.request
            body = '%s:%s:%s:%s' % (name, rid, _safe(lambda: rq.path), _safe(lambda: rq.query_string))
            if spec['lazy']:
                return self.lazy_body(fr, body)
            return body
        finally:
            st.pop()

    def lazy_body(self, fr, body):
        half = len(body) // 2

        def gen():
            for k, piece in enumerate((body[:half], body[half:])):
                st = self.stack()
                st.append(fr)
                try:
                    self.point('g%d' % k)
                    self.check('body generator %d of %s/%s' % (k, fr['name'], fr['rid']))
                finally:
                    st.pop()
                yield piece
        return gen()

    def do_op(self, fr, op):
        kind = op[0]
        name = fr['name']
        if kind == 'call':
            self.serve(op[2])
            self.tl.last = ('call', op[1], op[2])
        elif kind == 'fwd':
            _k, target, rid2, _script, _lazy, rewrite, look = op
            rq = fr['app'].request
            if look:
                fr.pop('defer_headers', None)
                rq.headers.get('X-Id')
                rq.get_cookie('cid')
            cp = rq.copy()
            self.keep.append(cp)
            cp['PATH_INFO'] = '/c10/' + rid2
            cp['QUERY_STRING'] = 'id=' + rid2
            cp['x.rid'] = rid2
            spec2 = self.reqs[rid2]
            if rewrite:
                cp['HTTP_X_ID'] = rid2
                cp['HTTP_COOKIE'] = 'cid=' + rid2
                spec2['xid'] = spec2['cid'] = rid2
            else:
                spec2['xid'], spec2['cid'] = fr.get('xid', fr['rid']), fr.get('cid', fr['rid'])
            spec2['env'] = cp.environ
            self.serve(rid2)
            fr.pop('defer_headers', None)
            self.tl.last = ('fwd', target, rid2)
        elif kind == 'copy':
            cp = fr['app'].request.copy()
            self.keep.append(cp)
            cp.environ['PATH_INFO'] = '/mutated/by/' + fr['rid']
            cp['QUERY_STRING'] = 'mutated=' + fr['rid']
            cp['HTTP_X_ID'] = 'mutated'
            self.tl.last = ('copy', name, fr['rid'])
        elif kind == 'copyof':
            cp = self.apps[op[1]].request.copy()
            self.keep.append(cp)
            cp.environ['PATH_INFO'] = '/mutated/by/' + fr['rid']
            cp['QUERY_STRING'] = 'mutated=' + fr['rid']
            self.tl.last = ('copyof', op[1], name)
        elif kind == 'listen':
            if op[1] == 'own':
                target = fr['app'].request
            elif op[1] == 'copy':
                target = fr['app'].request.copy()
            else:
                target = self.apps[op[2]].request.copy()
            self.keep.append(target)
            self.removers.append(target.on('env_changed', self.listener(name, target)))
            if op[1] != 'own':
                target['QUERY_STRING'] = 'X=' + fr['rid']          # the copy is changed: its listener marks the copy
            self.tl.last = ('listen', name, op[1])
        elif kind == 'touch':
            rq = fr['app'].request
            if op[1] == 'QUERY_STRING':
                new = 'id=%s&T=%d' % (fr['rid'], fr.get('touched', 0) + 1)
                fr['touched'] = fr.get('touched', 0) + 1
                self.reqs[fr['rid']]['qs'] = new                  # what this request shows from now on is what its handler wrote
                rq['QUERY_STRING'] = new
            else:
                fr['touched'] = fr.get('touched', 0) + 1
                rq[op[1]] = '%s-%d' % (fr['rid'], fr['touched'])
            self.tl.last = ('touch', name, op[1])
        elif kind == 'new':
            self.keep.append(self.ombott.Ombott())
            self.tl.last = ('new', name)
        elif kind == 'newserve':
            with self.lock:
                self.nnew += 1
                nname = 'N%d' % self.nnew
            app = self.ombott.Ombott()
            self.keep.append(app)
            self.install(nname, app)
            self.reqs[op[1]]['app'] = nname
            self.serve(op[1])
            self.tl.last = ('newserve', nname, op[1])
        else:
            raise ValueError(kind)

    def listener(self, owner, target):
        """An env_changed listener of application `owner`, registered on the request object `target`: marks the request it is
        called with and normalises the query string of a request that is not the one it was registered on."""
        def cb(req, key, value):
            if self.closed:
                return                            # the case is over (a request object may outlive it: the default application's)
            req.environ['c10.mark'] = owner
            if req is not target:
                req.environ['QUERY_STRING'] = 'rewritten-by-listener-of-' + owner
        return cb

    def close(self):
        self.closed = True
        for un in self.removers:
            try:
                un()
            except Exception:  # noqa - already gone
                pass
        del self.removers[:]

    # ------------------------------------------------------------ top-level programs
    def run_program(self, prog):
        self.stack()
        started = {}
        for op in prog:
            kind = op[0]
            if kind == 'serve':
                self.point('top')
                self.serve(op[2])
                self.tl.last = ('serve', op[1], op[2])
            elif kind == 'start':
                rec, result = self.call_app(op[2])
                spec = self.reqs[op[2]]
                fr = dict(app=self.apps[op[1]], name=op[1], rid=op[2], env=spec['env'], code=spec['code'], stage='set')
                self.tl.open.append(fr)
                started[op[2]] = (rec, result, fr)
                self.tl.last = ('start', op[1], op[2])
            elif kind == 'drain':
                rec, result, fr = started.pop(op[1])
                self.drain(op[1], rec, result)
                self.tl.open.remove(fr)
                self.tl.last = ('drain', fr['name'], op[1])
            elif kind == 'new':
                self.point('top')
                try:
                    self.keep.append(self.ombott.Ombott())
                except Exception as e:  # noqa - reported
                    self.fail('I0.operation_raised', operation='new', inside='top level', exc=repr(e))
                self.tl.last = ('new', None)
            else:
                raise ValueError(kind)
            self.check('top level after %s' % kind)
        return True


# ---------------------------------------------------------------------------------------------
# measured sizes of the schedule space
# ---------------------------------------------------------------------------------------------
_COUNTS = {}


def _count(cfg, prog, traced):
    key = (repr(cfg), _shape(prog), traced)
    if key not in _COUNTS:
        n = 0
        for _ in range(2):
            sched = tc.Sched(1, [], trace_prefix=tc.ombott_dir() if traced else None, count_all=True)
            w = World(cfg, [prog], sched)
            sched.run([lambda: w.run_program(prog)])
            w.close()
            n = sched.counts[0]
        _COUNTS[key] = n
    return _COUNTS[key]


def _shape(prog):
    """The program without its request ids (they do not influence the number of points)."""
    def sh(op):
        if op[0] in ('call', 'serve', 'start', 'fwd'):
            return (op[0], op[1], tuple(sh(o) for o in op[3])) + tuple(op[4:])
        if op[0] == 'newserve':
            return (op[0], tuple(sh(o) for o in op[2]))
        if op[0] == 'drain':
            return ('drain',)
        return tuple(op)
    return repr([sh(o) for o in prog])


def setup():
    """Warm-up (once per worker / replay process): first-use branches of the framework are taken here, so that the
    statement positions of a schedule mean the same in a full run and in a replay."""
    prog = [['serve', 'A', 'w1', [['call', 'B', 'w2', [['copy']], 1], ['new']], 0]]
    _count(['A', 'B'], prog, True)
    _count(['D', 'A'], [['serve', 'D', 'w1', [], 1]], True)


# ---------------------------------------------------------------------------------------------
# execution
# ---------------------------------------------------------------------------------------------
def _probe_shared_store():
    """Direct probe of the known defect class D10 (one store per CLASS instead of per instance); labels only."""
    try:
        import ombott
        r1 = ombott.Request({'PATH_INFO': '/p1'})
        r2 = ombott.Request({'PATH_INFO': '/p2'})
        s1 = ombott.Response()
        s1.status = 201
        s2 = ombott.Response()
        return r1.path != '/p1' or s1.status_code != 201 or r2.path != '/p2' or s2.status_code != 200
    except Exception:
        return True


def _finish(w, extra=None):
    w.close()
    if w.failure is None:
        return None
    f = dict(w.failure)
    f['shared_store_probe'] = _probe_shared_store()
    if extra:
        f.update(extra)
    return f


def run_case(case):
    cfg, programs = case['apps'], case['threads']
    if case['mode'] == 'one':
        w = World(cfg, programs)
        done, _res, exc = tc.run_alone(lambda: w.run_program(programs[0]))
        if not done:
            return fail('harness.timeout')
        if exc is not None and w.failure is None:
            raise exc
        return _finish(w)
    if case['mode'] == 'stress':
        old = sys.getswitchinterval()
        sys.setswitchinterval(1e-6)
        try:
            for rnd in range(case['rounds']):
                sched = tc.Sched(len(programs), [], free=True)
                w = World(cfg, programs, sched)
                results = sched.run([(lambda p=p: w.run_program(p)) for p in programs])
                w.close()
                if sched.broken or not all(r[0] for r in results):
                    return fail('harness.timeout', detail=sched.broken)
                for _d, _r, exc in results:
                    if exc is not None:
                        raise exc
                if w.failure is not None:
                    return _finish(w, dict(round=rnd))
            return None
        finally:
            sys.setswitchinterval(old)
    sched = tc.Sched(len(programs), case['segs'], trace_prefix=tc.ombott_dir() if case['trace'] else None)
    w = World(cfg, programs, sched)
    results = sched.run([(lambda p=p: w.run_program(p)) for p in programs])
    if sched.broken or not all(r[0] for r in results):
        return fail('harness.timeout', detail=sched.broken, finished=[r[0] for r in results])
    for _d, _r, exc in results:
        if exc is not None:
            raise exc
    return _finish(w, dict(switches=[list(s) for s in sched.switches]))


FINDINGS = {
    # the store of the thread-safe properties lived in a closure cell shared by all instances of a class
    'D10-ts-props-store-shared-by-class':
        lambda case, failure: str(failure.get('clause', '')).startswith('I') and failure.get('shared_store_probe') is True,
}
