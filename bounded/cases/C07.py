"""C07 bounded stand-in / replay harness: multipart forms and uploads round-trip exactly.

The contract is the postcondition of `Request.forms / Request.files / Request.POST` read inside a handler that is
reached through `Ombott.__call__` (the real application, the real body reader, the real multipart parser):

  a field list (spec side: /verif/spec/multipart_spec.py, RFC 7578 encoder, written from the RFC) is encoded, posted
  with Content-Length or chunked framing and read back.

  R0.status      the request is served with 200 (the handler only reads the form and returns 'ok').
  R1.forms       request.forms == {name: text values of that name in submission order}; every value is a str.
                 (a single value may be delivered bare or as a 1-element list: the statement does not fix the shape)
  R2.files       request.files == {name: uploads of that name in submission order}; each upload carries the field name,
                 the exact file name (raw_filename) and the byte-exact content.
  R2.ctype       the content type of each upload (the header string, or an object whose .value/.options spell it;
                 only checked when the part was sent with a Content-Type header).
  R2.ctype.absent  an upload whose part was sent WITHOUT a Content-Type header reports no content type of its own: what
                 the unchanged code gives is the HeaderProperty default '' (FileUpload.content_type with no such header);
                 None (absent) and RFC 7578 section 4.4's default 'text/plain' are accepted as well (the statement fixes
                 "their content type", RFC 7578 names text/plain as the meaning of an absent header). Anything else is
                 a content type the part never sent - in particular the one of ANOTHER part of this form or of a form of
                 an earlier request ("their ... content type"; "no byte of one part appears in another").
  R2.headers     every header an upload exposes (FileUpload.headers) is a header THAT part sent: its name (compared
                 case-insensitively) occurs in the part's own header block, and for Content-Type / extra headers such as
                 X-Note the value spells what that part sent. Whether extra headers are exposed at all is not demanded.
  R3.post        request.POST holds every name; per name all text values and all uploads, each kind in submission
                 order (for a name used by one kind only this is exactly the submission order).
  R4.file_api    the upload's file object gives the same bytes through interleaved partial reads of all uploads,
                 through seek(0)/read() and through FileUpload.save(); seek(0, 2) gives the size
                 ("no byte of one part appears in another" for windows over one shared buffered body).
  R4.file_api.seek  seek/tell/read arithmetic for the three whences stays inside the upload's own bytes: relative and
                 from-the-end seeks land where a file of exactly these bytes would, a read behind the end gives b'', a
                 negative absolute seek (if accepted at all) never exposes bytes of a neighbouring part.

Each case also fixes which collection the handler touches first (forms / files / POST) and whether another form with
the same field names was served by the same application just before (nothing of it may stay behind).
Part (5) adds histories: a case may carry `pre_fields` (the field list of an EARLIER request, served just before in the
same process, on the same application or - `pre_app` == 'other' - on a second Ombott object) and file fields may carry a
6th element: a list of extra (header name, value) lines sent behind Content-Disposition / Content-Type.

Precondition of exactness (C13: "form text larger than the in-memory threshold is refused"): the header blocks plus the
text values fit in max_memfile_size. Where they do not fit the statement allows refusal: then only "200 => exact" is
demanded. Chunked framing: a chunk-size line fits in max_memfile_size (global assumption of C05), guaranteed by mem >= 8.
Out of the generated space on purpose (DESIGN.md section 5): quoted boundary parameter, empty file name.
Part (6) ("all legal boundary strings"): boundary strings over the RFC 2046 bchars that contain '=' and the very text
'boundary=' (form_boundary=42, boundary=boundary=x, ...), and the boundary parameter followed / preceded by another
parameter of the Content-Type header (`ctype` of the case: a template with {b} for the boundary; absent = the plain
'multipart/form-data; boundary={b}'). The contract is unchanged (R0..R4): the delimiter is the whole value of the
boundary parameter, neither a tail of it nor anything behind the next ';'.
"""
import io
import itertools
import random

from bounded.common import FragStream, make_environ, serve, chunk_encode, fail
from spec import multipart_spec as ms

BOUND = ('field lists: (1) every single field over 16 names (ASCII, space, ";", "=", backslash incl. trailing, UTF-8 2/3/4-byte, '
         '"a; filename=b") x {11 text values | 16 file names x content types {none, text/plain, with parameter} | 14 adversarial '
         'contents (CR, LF, dashes, delimiter prefixes)}; (2) every sequence of length <=3 (quick) / <=4 (thorough) over 8 '
         'parts (duplicate names, text/file interleaving, same name as text and file); (3) every byte string of length <=5 '
         '(quick) / <=6 (thorough) over {CR,LF,-,X,a} that is legal for boundary X as file content (middle/only part) and as '
         'text value; (4) seeded random lists of 0..6 parts with random names/binary data up to 3000 bytes and random legal '
         'token boundaries of length 1..70; x boundaries {X, BND, --a-, Ab\'+_.-9, 70 chars} x max_memfile_size {exactly the '
         'text+header budget, +1, +37, 102400} (body spills to disk in the first three) x framing {Content-Length with read '
         'fragmentation full/1/7/script, chunked with pieces all/1/5/13} x closing CRLF present/absent. (1)-(3) enumerated '
         'completely, framing/threshold rotated in (1) and (3). (5) part headers per upload: every sequence of length 1..3 '
         '(quick) / 1..4 (thorough) over 9 parts (uploads with Content-Type image/png | a/b; p=q | none, with / without an extra '
         'X-Note or x-other header, two of them under one repeated name, one text field), as one form and - every ordered pair of '
         'sequences of length <=2 (quick) / all splits of every sequence (thorough) - as TWO requests served one after the other '
         'in one process (same application | a second Ombott object); content_type and the exposed headers of every upload are '
         'compared with what that part sent (untyped upload => no content type / RFC default), thresholds/framings rotated. '
         '(6) boundary strings that contain "=" or the text "boundary=" {boundary, my-boundary=, ==frontier==, form_boundary=42, '
         'boundary=boundary=x, xboundary=boundary=-, a=b} and the 5 boundaries above x Content-Type header {boundary parameter '
         'last, followed by "; charset=utf-8", preceded by "charset=utf-8; "} x 22 field lists (empty, 9 single fields, 8 '
         'sequences of 2..5 parts with duplicates / UTF-8 / separators in names / adversarial content incl. one that embeds '
         'the tail of the boundary behind its last "=") x 2 thresholds/framings (rotated), enumerated completely.')
NONTRIVIAL_RULE = 'distinct (fields, boundary, threshold, framing, closing CRLF); non-trivial = at least one part'

DEFAULT_MEM = 100 * 1024

NAMES = ['a', 'a b', 'a;b', 'a=b', '\u00e9', 'c:\\x', 'x;y=z.txt', 'a; filename=b', ' a ', 'a\\', '\U0001d11e\u20ac',
         "a'b", 'name', 'filename', 'a;', '=;=']
TEXTS = ['', 'v', '\u00fc\u20ac', 'l1\r\nl2', '\r\n--BN', '--', ' x ', '\r', '\n', 'a\r\n', '\r\n', '\ufeffid,name', '\ufeff']
CTYPES = [None, 'text/plain', 'text/plain; charset=utf-8', 'Image/PNG']
BOUNDARIES = ['X', 'BND', '--a-', "Ab'+_.-9", 'b' * 35 + 'Z' * 35]

# framing: (kind, pieces, script, tail).  kind 'cl': Content-Length, reads answer per script/tail.
#          kind 'ch': chunked with payload pieces of that size (0 = one piece), reads answer per script/tail.
FRAMINGS = [('cl', 0, [], 0), ('ch', 0, [], 0), ('cl', 0, [], 1), ('ch', 5, [], 2), ('cl', 0, [3, 1, 0, 2], 7),
            ('ch', 1, [], 0), ('cl', 0, [], 7), ('ch', 13, [0, 1], 0)]


def exhaustive(tier):
    return False  # a seeded random part is added; framing/threshold are rotated, not multiplied, in parts (1) and (3)


def nontrivial(case):
    return len(case['fields']) > 0


def adversarial(boundary):
    """file contents rich in CR, LF, dashes and proper prefixes of the delimiter (all legal for `boundary`)."""
    b = boundary.encode()
    d = b'\r\n--' + b
    out = [b'', b'D', b'\r\n', b'\r', b'\n', b'--', d[:-1], d[:-1] + d[:-1], b'x--' + b + b'--\r\n', b'\n--' + b,
           b'\r' + d[:-1], d[:3], b'\x00\xff\xfe\r\n-', d[:-1] + b'\r\n', b'\r\n--', b'-' * 7 + b'\r']
    return [x for x in out if d not in b'\r\n' + x + d[:-1]]


def _extras(f):
    """extra header lines of a file field: optional 6th element [[name, value], ...]"""
    return [tuple(x) for x in f[5]] if f[0] == 'file' and len(f) > 5 and f[5] else []


def _hdr_block(f):
    """header block of one part: the RFC 7578 block of the spec encoder plus the extra lines (name: value)."""
    out = ms.part_headers(tuple(f[:5]) if f[0] == 'file' else tuple(f))
    for k, v in _extras(f):
        assert '\r' not in k + v and '\n' not in k + v and ':' not in k
        out += b'\r\n' + k.encode('ascii') + b': ' + v.encode('utf8')
    return out


def _encode(fields, boundary, final_crlf=True):
    """ms.encode, extended to parts with extra header lines (same builder, same legality check)."""
    if not any(_extras(f) for f in fields):
        return ms.encode([tuple(f[:5]) for f in fields], boundary, final_crlf=final_crlf)
    parts = [(_hdr_block(f), ms.part_data(f)) for f in fields]
    if not ms.legal_boundary(parts, boundary):
        raise ValueError('boundary occurs inside the encapsulated material')
    return ms.build(parts, boundary, closing=True, final_crlf=final_crlf)


def budget(fields):
    """bytes that must be held in memory as text: header blocks + text values."""
    n = 0
    for f in fields:
        n += len(_hdr_block(f))
        if f[0] == 'text':
            n += len(f[2].encode('utf8'))
    return n


def _mems(fields):
    b = max(budget(fields), 8)
    return [b, b + 1, b + 37, DEFAULT_MEM]


ORDERS = ['forms', 'files', 'post']
_counter = [0]


def _case(fields, boundary, mem, framing, final_crlf=True, order=None, prelude=None, pre_fields=None, pre_app=None):
    kind, pieces, script, tail = framing
    _counter[0] += 1
    n = _counter[0]
    c = dict(fields=[list(f) for f in fields], boundary=boundary, mem=mem, framing=kind, pieces=pieces,
             script=list(script), tail=tail, final_crlf=bool(final_crlf),
             order=order or ORDERS[n % 3], prelude=bool(n % 4 == 0) if prelude is None else bool(prelude))
    if pre_fields is not None:
        c['pre_fields'] = [list(f) for f in pre_fields]
        c['pre_app'] = pre_app or 'same'
    return c


SEQ_PARTS = [
    ('text', 'a', '1'), ('text', 'a', '2'), ('text', 'b', ''), ('text', '\u00e9', '\u00fc\u20ac'),
    ('file', 'a', 'n1.txt', 'text/plain', b'A\r\n--BN'), ('file', 'f', 'n1.txt', None, b'\r\n--\r\nF1'),
    ('file', 'f', 'n 2.bin', 'application/octet-stream', b''), ('file', 'g', '\u00e9.txt', None, b'\xff\x00G' * 30),
]


# (5) part headers: uploads with / without a Content-Type of their own, with / without an extra header line
HDR_PARTS = [
    ('file', 'u', 'p.png', 'image/png', b'\x89PNG\r\n\x1a\n--BN\r\n'),
    ('file', 'u', 'notes', None, b'\r\n--BN plain \xff bytes'),
    ('file', 'v', 'r.txt', 'a/b; p=q', b'typed'),
    ('file', 'y', 's', None, b''),
    ('file', 'w', 'n.txt', 'image/png', b'N', [['X-Note', 'n1']]),
    ('file', 'w', 'm.txt', None, b'M', [['X-Note', 'n2']]),
    ('file', 'x', 'o.txt', None, b'O', [['x-other', 'o1']]),
    ('file', 'z', 'blob.bin', None, b'second request'),
    ('text', 'title', 'hello'),
]


# (6) boundary strings containing '=' / the text 'boundary=' and other parameters around the boundary parameter
EQ_BOUNDARIES = ['boundary', 'my-boundary=', '==frontier==', 'form_boundary=42', 'boundary=boundary=x', 'xboundary=boundary=-', 'a=b']
CTYPE_TEMPLATES = ['multipart/form-data; boundary={b}', 'multipart/form-data; boundary={b}; charset=utf-8',
                   'multipart/form-data; charset=utf-8; boundary={b}']


def _eq_field_lists(bd):
    tail = bd.rsplit('=', 1)[-1]         # what is left of the boundary behind its last '='
    d = ('\r\n--' + tail).encode()
    yield []
    for f in (('text', 'a', 'v'), ('text', 'a=b', ''), ('text', '\u00e9', '\u00fc\u20ac'), ('text', 'boundary=', 'boundary=' + tail),
              ('file', 'f', 'n.txt', 'text/plain', b'data'), ('file', 'f', 'boundary=q', None, d + b'\r\n'),
              ('file', 'a b', '\u00e9.bin', 'a/b; p=q', b'\r\n--\r\n\x00\xff--'), ('file', 'f', 'n', None, b''),
              ('file', 'f', 'n', None, d + b'--\r\n' + d)):
        yield [f]
    yield [SEQ_PARTS[0], SEQ_PARTS[1]]
    yield [SEQ_PARTS[0], SEQ_PARTS[5], SEQ_PARTS[1]]
    yield [SEQ_PARTS[5], SEQ_PARTS[6]]
    yield [SEQ_PARTS[3], SEQ_PARTS[7], SEQ_PARTS[2]]
    yield [('text', 'title', 'hello'), ('file', 'doc', 'a=c d.bin', 'application/octet-stream', b'\r\n--\r\n-- part\r\n\x00\xff--'),
           ('text', 'title', 'zw\u00f6lf'), ('text', 'empty', ''), ('file', 'doc', 'second.txt', 'text/plain', b'line1\r\nline2\r\n')]
    yield [('file', 'f', 'n', None, d), ('text', 't', '--' + tail), ('file', 'f', 'm', None, d + b'--')]
    yield [HDR_PARTS[4], HDR_PARTS[5], HDR_PARTS[8]]
    yield [('text', 'a', '1')] * 3


def _gen_boundary_param(tier):
    nf = len(FRAMINGS)
    i = 0
    for bd in EQ_BOUNDARIES + BOUNDARIES:
        for tmpl in CTYPE_TEMPLATES:
            if bd in BOUNDARIES and tmpl == CTYPE_TEMPLATES[0]:
                continue        # parts (0)-(5)
            for fields in _eq_field_lists(bd):
                try:
                    _encode(fields, bd)
                except ValueError:
                    continue
                mems = _mems(fields)
                i += 1
                for k in range(2 if tier == 'quick' else 4):
                    c = _case(fields, bd, mems[(i + k) % 4], FRAMINGS[(i * 3 + k * 5) % nf], (i + k) % 4 != 0,
                              prelude=False)
                    c['ctype'] = tmpl
                    yield c


def gen_cases(tier, seed):
    yield from _gen_main(tier, seed)
    yield from _gen_headers(tier)
    yield from _gen_boundary_param(tier)


def _gen_headers(tier):
    quick = tier == 'quick'
    nf = len(FRAMINGS)
    maxlen = 3 if quick else 4
    i = 0
    for n in range(1, maxlen + 1):
        for seq in itertools.product(range(len(HDR_PARTS)), repeat=n):
            fields = [HDR_PARTS[j] for j in seq]
            i += 1
            # one form; alternately alone in its case / behind the standard prelude form (upload typed x/stale) on the same app
            mems = _mems(fields)
            for k in range(2 if quick else 4):
                yield _case(fields, ('BND', 'X')[(i + k) % 2], mems[(i + k) % 4], FRAMINGS[(i * 3 + k * 5) % nf],
                            (i + k) % 4 != 0, prelude=bool(k % 2))
            # the same parts as TWO requests of one process: every split into two non-empty requests
            for cut in range(1, n):
                first, second = fields[:cut], fields[cut:]
                b = max(budget(first), budget(second), 8)
                mems2 = [b, b + 1, b + 37, DEFAULT_MEM]
                yield _case(second, ('BND', 'X')[(i + cut) % 2], mems2[(i + cut) % 4], FRAMINGS[(i * 5 + cut) % nf],
                            True, prelude=False, pre_fields=first, pre_app=('same', 'other')[(i + cut) % 2])
    # every ordered pair of single parts on both kinds of history
    for a in HDR_PARTS:
        for b2 in HDR_PARTS:
            for pre_app in ('same', 'other'):
                i += 1
                yield _case([b2], 'BND', DEFAULT_MEM, FRAMINGS[i % nf], True, prelude=False, pre_fields=[a], pre_app=pre_app)


def _gen_main(tier, seed):
    quick = tier == 'quick'
    _counter[0] = 0
    nf = len(FRAMINGS)
    i = 0
    # (0) no parts at all
    for bd in BOUNDARIES:
        for fr in FRAMINGS:
            for mem in (8, 9, DEFAULT_MEM):
                for fc in (True, False):
                    yield _case([], bd, mem, fr, fc)
    # (1) every single field
    singles = []
    for name in NAMES:
        for v in TEXTS:
            singles.append(('text', name, v))
        for fn in NAMES:
            singles.append(('file', name, fn, CTYPES[(len(singles)) % len(CTYPES)], b'data'))
        for ct in CTYPES:
            singles.append(('file', name, 'up.bin', ct, b'\r\n-\x00'))
    for f in singles:
        for bd in BOUNDARIES:
            mems = _mems([f])
            for k in range(3 if quick else 4):
                i += 1
                yield _case([f], bd, mems[(i + k) % 4], FRAMINGS[(i * 3 + k * 5) % nf], (i + k) % 5 != 0)
    for bd in BOUNDARIES:
        for data in adversarial(bd):
            for name, fn in (('f', 'n'), ('a;b', 'x;y=z.txt')):
                f = ('file', name, fn, None, data)
                for mem in _mems([f]):
                    for fr in FRAMINGS:
                        yield _case([f], bd, mem, fr, True)
    # (2) sequences: order, duplicates, interleaving, same name as text and as file
    maxseq = 3 if quick else 4
    for n in range(2, maxseq + 1):
        for seq in itertools.product(range(len(SEQ_PARTS)), repeat=n):
            fields = [SEQ_PARTS[j] for j in seq]
            mems = _mems(fields)
            for bd in ('BND', '--a-'):
                i += 1
                for k in range(3 if quick else 4):
                    yield _case(fields, bd, mems[(i + k) % 4], FRAMINGS[(i + 3 * k) % nf], (i + k) % 4 != 0)
    # (2b) ONE name used several times as a text field and several times as an upload, in every order (length 4 and 5)
    for n in (4, 5):
        for bits in itertools.product((0, 1), repeat=n):
            fields = [('file', 'a', 'f%d.txt' % k, None, b'data%d' % k) if b else ('text', 'a', 't%d' % k) for k, b in enumerate(bits)]
            mems = _mems(fields)
            i += 1
            for k in range(2):
                yield _case(fields, 'BND', mems[(i + k) % 4], FRAMINGS[(i + 3 * k) % nf], True)
    # (3) small-scope adversarial content for boundary X: all strings over {CR, LF, -, X, a}
    maxd = 5 if quick else 6
    delim = b'\r\n--X'
    for n in range(1, maxd + 1):
        for t in itertools.product(b'\r\n-Xa', repeat=n):
            data = bytes(t)
            if delim in b'\r\n' + data + delim[:-1]:
                continue
            txt = data.decode('ascii')
            lists = (
                [('text', 'a', '1'), ('file', 'f', 'n', None, data), ('text', 'b', '2')],
                [('file', 'f', 'n', 'text/plain', data)],
                [('text', 'a', txt), ('file', 'f', 'n', None, b'tail')],
                [('file', 'f', 'n', None, data), ('file', 'f', 'm', None, data[::-1] if delim not in b'\r\n' + data[::-1] + delim[:-1] else b'')],
            )
            for fields in lists:
                mems = _mems(fields)
                i += 1
                for k in range(2 if quick else 4):
                    yield _case(fields, 'X', mems[(i + k) % 4], FRAMINGS[(i * 3 + k) % nf], (i + k) % 3 != 0)
    # (4) seeded random larger lists
    rnd = random.Random(seed)
    bchars = "abcdefghijklmnopqrstuvwxyzABCDEFGHIJKLMNOPQRSTUVWXYZ0123456789'+_-."
    namechars = 'ab;= \\\u00e9\u20ac\U0001d11e:,/%.'
    for _ in range(1500 if quick else 80000):
        bd = ''.join(rnd.choice(bchars) for _ in range(rnd.choice([1, 2, 5, 16, 40, 69, 70])))
        d = b'\r\n--' + bd.encode()
        snippets = [b'\r', b'\n', b'-', b'\r\n', d[:-1], d[:rnd.randrange(1, len(d))], bd.encode(), b'\x00', b'\xff', b'z']
        fields = []
        for _k in range(rnd.randrange(0, 7)):
            name = rnd.choice(NAMES) if rnd.random() < .5 else \
                (''.join(rnd.choice(namechars) for _ in range(rnd.randrange(1, 9))).strip('"') or 'n')
            if rnd.random() < .5:
                val = ''.join(rnd.choice(['x', '\r\n', '-', ' ', '\u00fc', '\u20ac', '=', ';', bd[:-1]])
                              for _ in range(rnd.choice([0, 1, 3, 20, 200])))
                fields.append(('text', name, val))
            else:
                size = rnd.choice([0, 1, 10, 100, 1000, 3000])
                parts, got = [], 0
                while got < size:
                    s = rnd.choice(snippets) if rnd.random() < .6 else bytes(rnd.randrange(256) for _ in range(rnd.randrange(1, 40)))
                    parts.append(s)
                    got += len(s)
                fn = rnd.choice(NAMES) if rnd.random() < .6 else ''.join(rnd.choice(namechars) for _ in range(rnd.randrange(1, 12)))
                fields.append(('file', name, fn, rnd.choice(CTYPES + ['application/octet-stream']), b''.join(parts)))
        try:
            _encode(fields, bd)
        except ValueError:
            continue
        b = max(budget(fields), 8)
        mem = rnd.choice([b, b + 1, b + rnd.randrange(2, 100), 256 + b, 1024 + b, DEFAULT_MEM])
        fr = (rnd.choice(['cl', 'ch']), rnd.choice([0, 1, 2, 7, 64, 1000]),
              [rnd.choice([0, 1, 2, 5, 33]) for _ in range(rnd.randrange(5))], rnd.choice([0, 0, 1, 3, 50]))
        yield _case(fields, bd, mem, fr, rnd.random() < .7)


# ------------------------------------------------------------------------------------------------------------------

def _aslist(v):
    return list(v) if isinstance(v, list) else [v]


def _split_ctype(ct):
    bits = [b.strip() for b in ct.split(';')]
    return bits[0], {k.strip().lower(): v.strip() for k, v in (b.split('=', 1) for b in bits[1:])}


def _ctype_ok(obs, ct):
    if isinstance(obs, str):
        return obs == ct
    val = getattr(obs, 'value', None)
    if val == ct:
        return True
    media, params = _split_ctype(ct)
    opts = getattr(obs, 'options', None)
    try:
        return val == media and dict(opts) == params
    except Exception:
        return False


def _plain(v):
    """a header value as plain data: str stays, an object with .value/.options becomes [value, {options}]"""
    if v is None or isinstance(v, (str, int)):
        return v
    val, opts = getattr(v, 'value', None), getattr(v, 'options', None)
    if isinstance(val, str):
        try:
            return [val, {str(k): x for k, x in dict(opts or {}).items()}]
        except Exception:
            pass
    return repr(v)


def _hdr_obs(u):
    """[[name, plain value], ...] of the headers an upload exposes; None if they cannot be listed"""
    try:
        return [[str(k), _plain(v)] for k, v in list(u.headers.items())]
    except Exception:
        return None


def _spelled(obs, sent):
    """does the observed header value (str | [value, options]) spell the value that was sent?"""
    if isinstance(obs, str):
        return obs == sent
    if isinstance(obs, list) and len(obs) == 2:
        media, params = _split_ctype(sent)
        return obs[0] == sent or (obs[0] == media and obs[1] == params)
    return False


def _is_upload(x):
    return hasattr(x, 'file') and hasattr(x, 'raw_filename')


ACCESS = {'forms': ('forms', 'files', 'POST'), 'files': ('files', 'POST', 'forms'), 'post': ('POST', 'forms', 'files')}


def _probe(f, n):
    """seek/tell/read arithmetic of the upload's file object for the three whences: [(label, observed, expected-by-content)];
    expectations are spelled with slices of the TRUE content length n and resolved by the caller."""
    out = []
    f.seek(0)
    r1 = f.read(1)
    p = f.seek(1, 1)
    new = min(min(1, n) + 1, n)
    r2 = f.read(2)
    out.append(('read(1)', r1, (0, 1)))
    out.append(('seek(1,1)', p, new))
    out.append(('read(2) behind seek(1,1)', r2, (new, new + 2)))
    out.append(('tell', f.tell(), min(new + 2, n)))
    p = f.seek(-2, 2)
    out.append(('seek(-2,2)', p, max(n - 2, 0)))
    out.append(('read() behind seek(-2,2)', f.read(), (max(n - 2, 0), n)))
    f.seek(n + 5)
    out.append(('read(4) behind seek(size+5)', f.read(4), (n, n)))
    try:
        f.seek(-3)
        out.append(('read(2) behind seek(-3)', f.read(2), 'window'))
    except (ValueError, OSError):
        pass
    f.seek(0)
    return out


def _read_all(fu):
    f = fu.file
    f.seek(0)
    return f.read()


def expected(fields):
    forms, files, order = {}, {}, {}
    for f in fields:
        if f[0] == 'text':
            forms.setdefault(f[1], []).append(f[2])
            order.setdefault(f[1], []).append(('t', f[2]))
        else:
            files.setdefault(f[1], []).append((f[1], f[2], bytes(f[4])))
            order.setdefault(f[1], []).append(('f', f[2], bytes(f[4])))
    return forms, files, order


def build_wire(case, body):
    if case['framing'] == 'ch':
        p = case['pieces'] or len(body)
        pieces = [body[k:k + p] for k in range(0, len(body), p)]
        return chunk_encode(pieces)
    return body


def run_case(case):
    import ombott
    fields = [tuple(f) for f in case['fields']]
    boundary = case['boundary']
    try:
        body = _encode(fields, boundary, final_crlf=case['final_crlf'])
    except ValueError:
        return None     # the boundary is not legal for these fields: outside the space
    mem = case['mem']
    fits = budget(fields) <= mem
    app = ombott.Ombott({'max_memfile_size': mem})
    seen = {}

    @app.route('/up', method='POST')
    def h():
        rq = app.request
        got = {}
        for attr in ACCESS[case.get('order', 'forms')]:
            got[attr] = getattr(rq, attr)
        forms, files, post = got['forms'], got['files'], got['POST']
        seen['forms'] = {k: [v if isinstance(v, str) else ('NOT-STR', type(v).__name__) for v in _aslist(val)]
                         for k, val in forms.items()}
        ups = []
        fobs = {}
        for k, val in files.items():
            lst = []
            for u in _aslist(val):
                if _is_upload(u):
                    ups.append(u)
                    lst.append(u)
                else:
                    lst.append(('NOT-UPLOAD', type(u).__name__, u if isinstance(u, str) else None))
            fobs[k] = lst
        # pass A: interleaved partial reads of all uploads, 3 bytes each turn
        bufs = {id(u): [] for u in ups}
        live = list(ups)
        while live:
            nxt = []
            for u in live:
                part = u.file.read(3)
                if part:
                    if len(part) > 3:
                        seen['overread'] = len(part)
                    bufs[id(u)].append(part)
                    nxt.append(u)
            live = nxt
        a = {id(u): b''.join(bufs[id(u)]) for u in ups}
        # pass B: rewind and read everything; pass C: save(); size by seek(0, 2)
        out = {}
        for k, lst in fobs.items():
            o = []
            for u in lst:
                if not _is_upload(u):
                    o.append(u)
                    continue
                b = _read_all(u)
                u.file.seek(0)
                sink = io.BytesIO()
                u.save(sink)
                size = u.file.seek(0, 2)
                o.append(dict(name=u.name, filename=u.raw_filename, a=a[id(u)], b=b, c=sink.getvalue(), size=size,
                              ctype=u.content_type, hdrs=_hdr_obs(u), probe=_probe(u.file, len(b))))
            out[k] = o
        seen['files'] = out
        pobs = {}
        for k, val in post.items():
            lst = []
            for x in _aslist(val):
                if isinstance(x, str):
                    lst.append(('t', x))
                elif _is_upload(x):
                    lst.append(('f', x.raw_filename, _read_all(x)))
                else:
                    lst.append(('?', type(x).__name__))
            pobs[k] = lst
        seen['post'] = pobs
        return 'ok'

    wire = build_wire(case, body)
    stream = FragStream(wire, case['script'], case['tail'] or None)
    ct = ms.content_type_header(boundary)
    if case.get('ctype'):
        # part (6): the same header with another parameter behind / before the boundary parameter (spelled by the case)
        ct = case['ctype'].replace('{b}', boundary)
    if case['framing'] == 'ch':
        env = make_environ('/up', 'POST', stream=stream, content_type=ct, chunked=True)
    else:
        env = make_environ('/up', 'POST', stream=stream, content_type=ct, content_length=len(wire))
    if case.get('prelude'):
        # another form on the same application first, using the names of this one: nothing of it may stay behind
        n0 = fields[0][1] if fields else 'a'
        pre = ms.encode([('text', n0, 'stale'), ('file', n0, 'stale.bin', 'x/stale', b'STALE'), ('text', 'pre', 'p')], 'PRE')
        serve(app, make_environ('/up', 'POST', body=pre, content_type=ms.content_type_header('PRE')))
        seen.clear()
    if case.get('pre_fields') is not None:
        # an EARLIER request of the same process (same application, or a second Ombott object): its parts are not ours
        pre_fields = [tuple(f) for f in case['pre_fields']]
        pre_app = app
        if case.get('pre_app') == 'other':
            pre_app = ombott.Ombott({'max_memfile_size': max(mem, budget(pre_fields))})

            @pre_app.route('/up', method='POST')
            def h0():
                rq = pre_app.request
                return 'ok %d %d' % (len(rq.forms), sum(len(_aslist(v)) for v in rq.files.values()))
        pre = _encode(pre_fields, 'PRE')
        serve(pre_app, make_environ('/up', 'POST', body=pre, content_type=ms.content_type_header('PRE')))
        seen.clear()
    res = serve(app, env)
    if res.code != 200 or res.exc is not None:
        if not fits and res.exc is None:
            return None     # refusal of form text beyond the in-memory threshold is allowed (C13); the status is C12's
        return fail('R0.status', status=res.status, exc=repr(res.exc) if res.exc else None, errors=res.errors[-600:],
                    budget=budget(fields), mem=mem)

    eforms, efiles, eorder = expected(fields)
    if seen.get('forms') != eforms:
        return fail('R1.forms', expected=eforms, observed=seen.get('forms'))
    ofiles = seen.get('files')
    oshape = {k: [(u['name'], u['filename'], u['b']) if isinstance(u, dict) else u for u in lst] for k, lst in ofiles.items()}
    if oshape != {k: list(v) for k, v in efiles.items()}:
        return fail('R2.files', expected={k: [list(x) for x in v] for k, v in efiles.items()},
                    observed={k: [list(x) for x in v] for k, v in oshape.items()})
    if 'overread' in seen:
        return fail('R4.file_api.read_size', asked=3, got=seen['overread'])
    sent_ct = {}
    for f in fields:
        if f[0] == 'file':
            sent_ct.setdefault(f[1], []).append((f[3], _extras(f)))
    for k, lst in ofiles.items():
        for u, (ct_sent, extras) in zip(lst, sent_ct[k]):
            if not (u['a'] == u['b'] == u['c']) or u['size'] != len(u['b']):
                return fail('R4.file_api', name=k, interleaved=u['a'], rewound=u['b'], saved=u['c'], size=u['size'])
            content = u['b']
            for label, obs, exp in u['probe']:
                if exp == 'window':
                    ok = isinstance(obs, bytes) and obs in content
                elif isinstance(exp, tuple):
                    exp = content[exp[0]:exp[1]]
                    ok = obs == exp
                else:
                    ok = obs == exp
                if not ok:
                    return fail('R4.file_api.seek', name=k, op=label, observed=obs, expected=exp, content=content[:200])
            if ct_sent is not None and not _ctype_ok(u['ctype'], ct_sent):
                return fail('R2.ctype', name=k, expected=ct_sent, observed=repr(u['ctype']))
            if ct_sent is None and not (u['ctype'] is None or (isinstance(u['ctype'], str) and u['ctype'] == '')
                                        or _ctype_ok(u['ctype'], 'text/plain')):
                return fail('R2.ctype.absent', name=k, filename=u['filename'], observed=repr(u['ctype']),
                            expected="no content type ('' / None) or the RFC 7578 default text/plain: the part sent none")
            if u.get('hdrs') is not None:
                sent_h = {'content-disposition': None}
                if ct_sent is not None:
                    sent_h['content-type'] = ct_sent
                for hk, hv in extras:
                    sent_h[hk.lower()] = hv
                for hk, hv in u['hdrs']:
                    if hk.lower() not in sent_h:
                        return fail('R2.headers', name=k, filename=u['filename'], what='a header this part never sent',
                                    header=hk, value=hv, sent=sorted(sent_h))
                    want = sent_h[hk.lower()]
                    if want is not None and not _spelled(hv, want):
                        return fail('R2.headers', name=k, filename=u['filename'], what='value differs from what this part sent',
                                    header=hk, observed=hv, expected=want)
    opost = seen.get('post')
    if set(opost) != set(eorder):
        return fail('R3.post', expected=sorted(eorder), observed=sorted(opost), what='names')
    for k, lst in opost.items():
        exp = eorder[k]
        kinds = {x[0] for x in exp}
        if len(kinds) == 1:
            ok = [tuple(x) for x in lst] == exp
        else:   # a name used for text and for files: each kind in submission order, nothing lost, nothing added
            ok = (len(lst) == len(exp) and [x for x in lst if x[0] == 't'] == [x for x in exp if x[0] == 't']
                  and [x for x in lst if x[0] == 'f'] == [x for x in exp if x[0] == 'f'])
        if not ok:
            return fail('R3.post', name=k, expected=[list(x) for x in exp], observed=[list(x) for x in lst])
    return None


# ------------------------------------------------------------------------------------------------------------------
# recognisers of known defect classes (labels only)

def _semicolon_in_quoted(case):
    return any(';' in f[1] or (f[0] == 'file' and ';' in f[2]) for f in case['fields'])


def _text_and_file_share_a_name(case):
    t = {f[1] for f in case['fields'] if f[0] == 'text'}
    u = {f[1] for f in case['fields'] if f[0] == 'file'}
    return bool(t & u)


FINDINGS = {
    # D6: FieldStorage._patt splits header parameters at ';' inside the quoted string: name="a;b" -> 'a', filename="x;y=z.txt" -> 'x'
    'D6-quoted-param-split-at-semicolon':
        lambda case, failure: failure['clause'] in ('R0.status', 'R1.forms', 'R2.files', 'R3.post') and _semicolon_in_quoted(case)
        and not _text_and_file_share_a_name(case),     # inputs with both features are labelled D7 only
    # D7: BodyMixin.POST decides "repeated" on the combined dict: a name used by a text field and by an upload mixes forms/files
    'D7-text-and-file-same-name':
        lambda case, failure: failure['clause'] in ('R0.status', 'R1.forms', 'R2.files', 'R3.post') and _text_and_file_share_a_name(case),
}
