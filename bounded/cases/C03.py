"""C03 bounded stand-in / replay harness: every request gets exactly one well-formed WSGI response.

Contract = postcondition of `Ombott.__call__`, observed from the server side only
(`spec.wsgi_spec.record` + `check_exchange`, an independent PEP 3333 validator):

  W.*   nothing escapes to the server; start_response called exactly once; status line
        '<3 digits> <reason>'; header list of (str, str) with Latin-1 values; the result is an iterable of
        `bytes`; HEAD / 1xx / 204 / 304 carry no body; a Content-Length computed by the framework (no
        handler program of this module sets one) on a response that may carry a body == bytes returned.
  F.failure_is_500   an exception in the handler, in a hook, at the first next() of the handler iterable or
        in a custom error handler yields a 500 response.
  B.body   where the handler's output is unambiguous (str/bytes/iterables/file-likes, possibly wrapped in
        HTTPResponse, or the return value of a custom error handler) the bytes returned are that output.
  K.close  a handler iterable (or file-like) that produced output - at least one non-empty chunk was taken
        from it - has close() called exactly once once the server has closed the result (generators: their
        `finally` ran exactly once although the case still holds a reference).
  H.*   before_request hooks: each once, registration order, before routing (a hook that rewrites
        PATH_INFO decides which route runs) and before the handler; a failing one skips only the
        before-hooks after it; after_request hooks: each once, REVERSE registration order, after the
        handler, whatever the outcome (404, 405, exception, failing before hook). When an after hook itself
        fails the statement is silent about the remaining after hooks: not checked.

A handler program is data: a tree of nodes
  {'t':'val','v': str|bytes|None} | {'t':'list'|'tuple'|'gen'|'closer','items':[str|bytes|node...],'raise_at':k|None}
  | {'t':'file','data':bytes,'mode':'close'|'noclose'|'iter_noclose'} | {'t':'resp','body':node,'status':s}
  | {'t':'err','status':s}
plus an action ('return' | 'raise' | 'exc'), an optional status assigned to `response.status` first, custom
error handlers {code: kind}, the route set-up and the hook configuration. `predict` is the spec-side
reading of such a program (what must come out), written from the statement, not from `_cast`.
"""
import io
import itertools
import random

from bounded.common import make_environ, fail
from spec import wsgi_spec

BOUND = ('handler programs: 58 named programs (str, bytes, empty, None, lists/tuples/generators/closeable iterables of '
         'str or bytes with 0-2 leading empty items, file-likes with/without close and with/without wsgi.file_wrapper, '
         'HTTPResponse/HTTPError returned, raised, yielded first, nested to depth 3, exceptions in handler / at first '
         'next() / after leading empties, custom error handlers returning str, bytes, None, HTTPResponse, raising, looping, '
         '404, 405) x methods {GET, HEAD, POST} x statuses {200, 204, 304, 100, 404, 500, "299 X", " 410 Gone ", "202 Accepted CRLF"} (where the program '
         'takes a status) x hook configurations (0-2 before x 0-2 after x {no failure, each single hook failing}, plus '
         'PATH_INFO-rewriting before hook) x server consumption {all chunks, first chunk only then close()} for '
         'closeable programs; the product is enumerated exhaustively in both tiers; thorough adds seeded random '
         'program trees (depth <= 4, 0-3 hooks of each kind, 16 statuses)')
NONTRIVIAL_RULE = ('distinct (program tree, action, status, error handlers, route, method, hooks, consumption); '
                   'non-trivial = anything but a plain str/bytes returned to GET with status 200 and no hooks')

STATUSES = [200, 204, 304, 100, 404, 500, '299 X', ' 410 Gone ', '202 Accepted\r\n']     # the last two: padded status texts
MORE_STATUSES = STATUSES + [201, 101, 301, 400, 405, 418, 503, '204 Nothing Here', '304 Same Old']
METHODS = ['GET', 'HEAD', 'POST']


def exhaustive(tier):
    return tier == 'quick'   # thorough = the same exhaustive product + seeded random compositions


# --------------------------------------------------------------------------- programs (data)

def V(v):
    return {'t': 'val', 'v': v}


def IT(t, items, raise_at=None):
    return {'t': t, 'items': list(items), 'raise_at': raise_at}


def FILE(data, mode='close'):
    return {'t': 'file', 'data': data, 'mode': mode}


def RESP(body, status):
    return {'t': 'resp', 'body': body, 'status': status}


def ERR(status):
    return {'t': 'err', 'status': status}


def code_of(status):
    return status if isinstance(status, int) else int(status.split()[0])


def P(node, action='return', pre=None, errh=None, route='normal', fw=False):
    return dict(node=node, action=action, pre_status=pre, errh=errh or {}, route=route, file_wrapper=fw)


def named_programs(s):
    """name -> (program, uses_status, closeable)   for status s."""
    c = str(code_of(s))
    out = {}

    def add(name, prog, uses=True, closeable=False):
        out[name] = (prog, uses, closeable)
    # plain values, status through response.status
    add('str', P(V('héllo wörld €'), pre=s))
    add('bytes', P(V(b'abc\xff\x00'), pre=s))
    add('empty_str', P(V(''), pre=s))
    add('empty_bytes', P(V(b''), pre=s))
    add('none', P(V(None), pre=s))
    add('list_str', P(IT('list', ['', 'a', 'bç', '']), pre=s))
    add('list_bytes', P(IT('list', [b'', b'', b'a', b'bc']), pre=s))
    add('list_empty', P(IT('list', []), pre=s))
    add('list_all_empty', P(IT('list', ['', b'']), pre=s))
    add('tuple_str', P(IT('tuple', ['x', 'yz']), pre=s))
    add('gen_str', P(IT('gen', ['', 'a', 'bç']), pre=s), closeable=True)
    add('gen_bytes', P(IT('gen', [b'', b'', b'a', b'', b'bc']), pre=s), closeable=True)
    add('gen_one', P(IT('gen', [b'only']), pre=s), closeable=True)
    add('gen_empty', P(IT('gen', []), pre=s))
    add('gen_all_empty', P(IT('gen', ['', '']), pre=s))
    add('closer_bytes', P(IT('closer', [b'', b'x', b'yz']), pre=s), closeable=True)
    add('closer_str', P(IT('closer', ['p', '', 'qé']), pre=s), closeable=True)
    add('closer_empty', P(IT('closer', []), pre=s))
    add('closer_all_empty', P(IT('closer', [b'', b'']), pre=s))
    add('file', P(FILE(b'file data 0123456789'), pre=s), closeable=True)
    add('file_fw', P(FILE(b'file data 0123456789'), pre=s, fw=True), closeable=True)
    add('file_noclose', P(FILE(b'no close method', 'noclose'), pre=s))
    add('file_noclose_fw', P(FILE(b'no close method', 'noclose'), pre=s, fw=True))
    add('file_iter_noclose', P(FILE(b'iter but no close', 'iter_noclose'), pre=s))
    add('file_empty', P(FILE(b''), pre=s))
    add('file_empty_fw', P(FILE(b''), pre=s, fw=True))
    # response objects
    add('ret_resp', P(RESP(V('resp body é'), s)))
    add('raise_resp', P(RESP(V('raised body'), s), action='raise'))
    add('ret_resp_empty', P(RESP(V(''), s)))
    add('ret_err', P(ERR(s)))
    add('raise_err', P(ERR(s), action='raise'))
    add('gen_resp_first', P(IT('gen', [RESP(V('R'), s), 'never']), pre=200))
    add('gen_empty_then_resp', P(IT('gen', ['', b'', RESP(V(b'R2'), s)]), pre=200))
    add('gen_err_first', P(IT('gen', [ERR(s)]), pre=200))
    add('list_resp_first', P(IT('list', [RESP(IT('list', ['l1', 'l2']), s)])))
    add('closer_resp_first', P(IT('closer', [RESP(V('CR'), s)])))
    add('nest_resp_err', P(RESP(ERR(s), 200)))
    add('nest_resp_resp_list', P(RESP(RESP(IT('list', ['', 'x', 'y']), s), 202)))
    add('nest_resp_closer', P(RESP(IT('closer', [b'a', b'b']), s)), closeable=True)
    add('raise_resp_closer', P(RESP(IT('closer', ['', 'ra', 'rb']), s), action='raise'), closeable=True)
    add('nest_resp_gen', P(RESP(IT('gen', ['', 'g1', 'g2']), s)), closeable=True)
    add('nest_resp_file', P(RESP(FILE(b'nested file'), s)), closeable=True)
    add('nest_resp_file_fw', P(RESP(FILE(b'nested file'), s), fw=True), closeable=True)
    add('gen_resp_gen', P(IT('gen', [RESP(IT('gen', [b'', b'inner1', b'inner2']), s)])), closeable=True)
    add('nest3', P(RESP(RESP(RESP(V(b'deep'), s), 201), 202), action='raise'))
    # custom error handlers (registered for the code of s)
    add('err_custom_str', P(ERR(s), action='raise', errh={c: 'str'}))
    add('err_custom_bytes', P(ERR(s), errh={c: 'bytes'}))
    add('err_custom_none', P(ERR(s), action='raise', errh={c: 'none'}))
    add('err_custom_resp', P(ERR(s), action='raise', errh={c: 'resp'}))
    add('err_custom_raises', P(ERR(s), action='raise', errh={c: 'raise'}))
    add('nest_resp_err_custom', P(RESP(ERR(s), 200), errh={c: 'bytes'}))
    # failures, routing outcomes (status irrelevant)
    add('exc', P(V('unused'), action='exc'), uses=False)
    add('gen_exc_first', P(IT('gen', ['a'], raise_at=0)), uses=False)
    add('gen_exc_after_empty', P(IT('gen', ['', b'', 'a'], raise_at=2)), uses=False)
    add('gen_exc_at_end_of_empties', P(IT('gen', ['', ''], raise_at=2)), uses=False)
    add('closer_exc_first', P(IT('closer', [b'a'], raise_at=0)), uses=False)
    add('resp_gen_exc_first', P(RESP(IT('gen', ['a'], raise_at=0), 200)), uses=False)
    add('exc_custom500_bytes', P(V('unused'), action='exc', errh={'500': 'bytes'}), uses=False)
    add('exc_custom500_raises', P(V('unused'), action='exc', errh={'500': 'raise'}), uses=False)
    add('gen_exc_custom500_str', P(IT('gen', ['a'], raise_at=0), errh={'500': 'str'}), uses=False)
    add('err_custom_loop', P(ERR(418), errh={'418': 'loop'}), uses=False)
    add('notfound', P(V('unused'), route='notfound'), uses=False)
    add('notallowed', P(V('unused'), route='notallowed'), uses=False)
    add('notfound_custom_str', P(V('unused'), route='notfound', errh={'404': 'str'}), uses=False)
    add('notfound_custom_raises', P(V('unused'), route='notfound', errh={'404': 'raise'}), uses=False)
    add('notallowed_custom_bytes', P(V('unused'), route='notallowed', errh={'405': 'bytes'}), uses=False)
    return out


def hook_configs(maxn=2):
    out = []
    for nb in range(maxn + 1):
        for na in range(maxn + 1):
            fails = [None] + ['b%d' % i for i in range(1, nb + 1)] + ['a%d' % i for i in range(1, na + 1)]
            for f in fails:
                out.append(dict(nb=nb, na=na, fail=f, rewrite=False))
            if nb:
                out.append(dict(nb=nb, na=na, fail=None, rewrite=True))
    return out


def gen_cases(tier, seed):
    from bounded.cases import _c03_extra
    yield from _c03_extra.gen(tier)
    hooks = hook_configs()
    seen_unused = set()
    for s in STATUSES:
        progs = named_programs(s)
        for name, (prog, uses, closeable) in progs.items():
            if not uses:
                if name in seen_unused:
                    continue
                seen_unused.add(name)
            for method in METHODS:
                for hk in hooks:
                    for consume in (('all', 'one') if closeable else ('all',)):
                        yield dict(name=name, prog=prog, method=method, hooks=hk, consume=consume)
    if tier == 'quick':
        return
    rnd = random.Random(seed)
    for k in range(60000):
        yield random_case(rnd, k)


# ----------------------------------------------------------------- seeded random compositions

def rnd_items(rnd, kind):
    lead = [rnd.choice(['', b'']) for _ in range(rnd.choice([0, 0, 1, 2, 3]))]
    n = rnd.choice([0, 1, 1, 2, 3])
    if kind == 'str':
        body = [rnd.choice(['a', 'bé', '€\U0001f600', '', 'zz']) for _ in range(n)]
    else:
        body = [rnd.choice([b'a', b'\xff\x00', b'', b'zz' * 40]) for _ in range(n)]
    # the first body item must be non-empty for the prediction to be "first chunk then the rest"
    return lead + body


def rnd_node(rnd, depth, statuses):
    r = rnd.random()
    if depth <= 0 or r < 0.45:
        t = rnd.choice(['val', 'val', 'list', 'tuple', 'gen', 'closer', 'file'])
        if t == 'val':
            return V(rnd.choice(['text é', b'bytes\xfe', '', b'', None, 'x' * 300]))
        if t == 'file':
            return FILE(rnd.choice([b'', b'f', b'file' * 10]), rnd.choice(['close', 'close', 'noclose', 'iter_noclose']))
        items = rnd_items(rnd, rnd.choice(['str', 'bytes']))
        raise_at = None
        if t in ('gen', 'closer') and rnd.random() < 0.15:
            k = 0
            while k < len(items) and not items[k]:
                k += 1
            raise_at = rnd.randrange(0, k + 1)   # at or before the first non-empty item
        return IT(t, items, raise_at)
    if r < 0.75:
        return RESP(rnd_node(rnd, depth - 1, statuses), rnd.choice(statuses))
    if r < 0.87:
        return ERR(rnd.choice(statuses))
    # an iterable that yields a response first (after leading empties)
    t = rnd.choice(['gen', 'closer', 'list'])
    lead = [rnd.choice(['', b'']) for _ in range(rnd.choice([0, 1, 2]))]
    inner = rnd.choice([RESP(rnd_node(rnd, depth - 1, statuses), rnd.choice(statuses)), ERR(rnd.choice(statuses))])
    return IT(t, lead + [inner] + rnd.choice([[], ['ignored']]))


def random_case(rnd, k):
    node = rnd_node(rnd, rnd.choice([1, 2, 3, 4]), MORE_STATUSES)
    action = rnd.choice(['return'] * 6 + ['raise', 'raise', 'exc'])
    if action == 'raise' and node['t'] not in ('resp', 'err'):
        node = RESP(node, rnd.choice(MORE_STATUSES))
    errh = {}
    for _ in range(rnd.choice([0, 0, 1, 2])):
        errh[str(code_of(rnd.choice(MORE_STATUSES)))] = rnd.choice(['str', 'bytes', 'none', 'resp', 'raise'])
    pre = rnd.choice([None, None] + MORE_STATUSES)
    route = rnd.choice(['normal'] * 10 + ['notfound', 'notallowed'])
    nb, na = rnd.randrange(4), rnd.randrange(4)
    fails = [None] * 4 + ['b%d' % i for i in range(1, nb + 1)] + ['a%d' % i for i in range(1, na + 1)]
    f = rnd.choice(fails)
    hk = dict(nb=nb, na=na, fail=f, rewrite=bool(nb and f is None and rnd.random() < 0.3))
    prog = dict(node=node, action=action, pre_status=pre, errh=errh, route=route, file_wrapper=rnd.random() < 0.3)
    return dict(name='random-%d' % k, prog=prog, method=rnd.choice(METHODS + ['GET']), hooks=hk,
                consume=rnd.choice(['all', 'all', 'one']))


def nontrivial(case):
    if 'extra' in case:
        return True
    p = case['prog']
    plain = (p['node']['t'] == 'val' and p['node']['v'] and p['action'] == 'return' and p['route'] == 'normal'
             and p['pre_status'] in (None, 200) and not p['errh'])
    return not (plain and case['method'] == 'GET' and case['hooks']['nb'] == 0 and case['hooks']['na'] == 0)


# ------------------------------------------------------------------------- spec-side reading

CUSTOM_OUT = {'str': 'custom page é <b>'.encode('utf8'), 'bytes': b'custom\xff bytes', 'none': b'',
              'resp': b'from error handler'}


def enc(x):
    return x.encode('utf8') if isinstance(x, str) else x


def predict(node, errh, route='normal'):
    """-> (fails, body, overridden).
    fails: an exception occurs (before the first chunk / in an error handler): the response must be a 500 ...
    overridden: ... unless the application's own 500 handler answered with a response object of its own.
    body: bytes the server must receive, or None = content not determined by the statement."""
    if route == 'notfound':
        return predict(ERR(404), errh)
    if route == 'notallowed':
        return predict(ERR(405), errh)
    t = node['t']
    if t == 'val':
        v = node['v']
        return (False, enc(v) if v else b'', False)
    if t == 'file':
        return (False, node['data'], False)
    if t == 'resp':
        return predict(node['body'], errh)
    if t == 'err':
        kind = errh.get(str(code_of(node['status'])))
        if kind is None or kind == 'loop':
            return (False, None, False)
        if kind == 'raise':
            return (True, None, False)
        return (False, CUSTOM_OUT[kind], kind == 'resp')
    items, raise_at = node['items'], node.get('raise_at')
    for i, it in enumerate(items):
        if raise_at == i:
            return failure(errh)
        if isinstance(it, dict):
            return predict(it, errh)
        if it:
            rest = items[i:]
            if any(isinstance(r, dict) for r in rest) or (raise_at is not None and raise_at > i):
                return (False, None, False)     # outside the statement (failure after the first chunk)
            if len({type(r) for r in rest}) > 1:
                return (False, None, False)     # mixed str/bytes: not a supported return type
            return (False, b''.join(enc(r) for r in rest), False)
    if raise_at is not None and raise_at >= len(items):
        return failure(errh)
    return (False, b'', False)


def failure(errh):
    """An exception in handler / hook / first next(): a 500 rendered by the 500 handler in force."""
    _, body, overridden = predict(ERR(500), errh)
    return (True, body, overridden)


# ------------------------------------------------------------------------------ the real run

class World:
    def __init__(self):
        self.log = []
        self.closers = []
        self.gens = []
        self.files = []


class Closer:
    """Iterable with a close() counter that is not a generator."""

    def __init__(self, items, raise_at):
        self.items, self.raise_at = items, raise_at
        self.i = 0
        self.produced = 0
        self.close_calls = 0

    def __iter__(self):
        return self

    def __next__(self):
        i = self.i
        self.i += 1
        if self.raise_at == i:
            raise RuntimeError('boom in __next__')
        if i >= len(self.items):
            raise StopIteration
        it = self.items[i]
        if isinstance(it, (str, bytes)) and it:
            self.produced += 1
        return it

    def close(self):
        self.close_calls += 1


class GenTrack:
    def __init__(self):
        self.produced = 0
        self.finalized = 0
        self.gen = None


def make_gen(items, raise_at, tr):
    def g():
        try:
            for i, it in enumerate(items):
                if raise_at == i:
                    raise RuntimeError('boom in generator')
                if isinstance(it, (str, bytes)) and it:
                    tr.produced += 1
                yield it
            if raise_at is not None and raise_at >= len(items):
                raise RuntimeError('boom at the end of the generator')
        finally:
            tr.finalized += 1
    return g()


class FileBase:
    def __init__(self, data):
        self._buf = io.BytesIO(data)
        self.produced = 0
        self.close_calls = 0

    def read(self, n=-1):
        d = self._buf.read(n)
        if d:
            self.produced += 1
        return d


class FileClose(FileBase):
    def close(self):
        self.close_calls += 1


class FileNoClose(FileBase):
    pass


class FileIterNoClose(FileBase):
    def __iter__(self):
        while True:
            d = self.read(5)
            if not d:
                return
            yield d


class ServerFileWrapper:
    """wsgi.file_wrapper as a server provides it (PEP 3333, 'Optional Platform-Specific File Handling')."""

    def __init__(self, filelike, blksize=7):
        self.filelike, self.blksize = filelike, blksize
        if hasattr(filelike, 'close'):
            self.close = filelike.close

    def __iter__(self):
        return self

    def __next__(self):
        data = self.filelike.read(self.blksize)
        if data:
            return data
        raise StopIteration


def build(node, W, ombott):
    t = node['t']
    if t == 'val':
        return node['v']
    if t == 'file':
        cls = {'close': FileClose, 'noclose': FileNoClose, 'iter_noclose': FileIterNoClose}[node['mode']]
        f = cls(node['data'])
        W.files.append(f)
        return f
    if t == 'resp':
        return ombott.HTTPResponse(build(node['body'], W, ombott), node['status'])
    if t == 'err':
        return ombott.HTTPError(node['status'], 'error text of the program')
    items = [build(it, W, ombott) if isinstance(it, dict) else it for it in node['items']]
    raise_at = node.get('raise_at')
    if t == 'list':
        return items
    if t == 'tuple':
        return tuple(items)
    if t == 'closer':
        c = Closer(items, raise_at)
        W.closers.append(c)
        return c
    tr = GenTrack()
    tr.gen = make_gen(items, raise_at, tr)   # the reference keeps the generator alive: no GC finalisation
    W.gens.append(tr)
    return tr.gen


def run_case(case):
    if 'extra' in case:
        from bounded.cases import _c03_extra
        return _c03_extra.run(case)
    import ombott
    prog, hk, method = case['prog'], case['hooks'], case['method']
    W = World()
    log = W.log
    app = ombott.Ombott()

    def handler():
        log.append('H')
        if prog['pre_status'] is not None:
            app.response.status = prog['pre_status']
        if prog['action'] == 'exc':
            raise RuntimeError('boom in handler')
        obj = build(prog['node'], W, ombott)
        if prog['action'] == 'raise':
            raise obj
        return obj

    route = prog['route']
    if route == 'normal':
        app.route('/h', ['GET', 'POST'], handler)
    elif route == 'notallowed':
        app.route('/h', ['PUT', 'DELETE'], handler)
    app.route('/other', ['GET', 'POST'], lambda: 'other')

    def make_errh(code, kind):
        def eh(err):
            log.append('E%s' % code)
            if kind == 'raise':
                raise RuntimeError('boom in error handler')
            if kind == 'loop':
                return err
            if kind == 'resp':
                return ombott.HTTPResponse('from error handler', 202)
            return {'str': 'custom page é <b>', 'bytes': b'custom\xff bytes', 'none': None}[kind]
        return eh
    for code, kind in prog['errh'].items():
        app.error(int(code))(make_errh(code, kind))

    def make_hook(tag, i):
        name = '%s%d' % (tag, i)

        def hook():
            log.append(name)
            if hk['rewrite'] and name == 'b1':
                app.request['PATH_INFO'] = '/h'
            if hk['fail'] == name:
                raise RuntimeError('boom in hook ' + name)
        return hook
    for i in range(1, hk['nb'] + 1):
        app.add_hook('before_request', make_hook('b', i))
    for i in range(1, hk['na'] + 1):
        app.add_hook('after_request', make_hook('a', i))

    extra = {'wsgi.file_wrapper': ServerFileWrapper} if prog['file_wrapper'] else None
    env = make_environ('/alias' if hk['rewrite'] else '/h', method, extra=extra)
    x = wsgi_spec.record(app, env, max_chunks=(1 if case['consume'] == 'one' else None))

    obs = dict(status=x.status, headers=x.headers, chunks=x.chunks[:6], log=log, errors=x.errors[-300:])
    problems = wsgi_spec.check_exchange(x, method, framework_content_length=True)
    if problems:
        tag = problems[0].split(']')[0].lstrip('[')
        return fail('W.' + tag, problems=problems, **obs)

    hook_fail = hk['fail']
    fails, body, overridden = predict(prog['node'], prog['errh'], route)
    # the handler's own exception counts only when the handler is reached (a routed request); an unrouted or
    # wrong-method request with the same handler program is a plain 404 / 405
    if (prog['action'] == 'exc' and route == 'normal') or hook_fail:
        fails, body, overridden = failure(prog['errh'])
    if fails and not overridden and x.code != 500:
        return fail('F.failure_is_500', **obs)
    if route == 'notfound' and not hook_fail and not prog['errh'] and x.code != 404:
        return fail('F.unrouted_is_404', **obs)
    if route == 'notallowed' and not hook_fail and not prog['errh'] and x.code != 405:
        return fail('F.wrong_method_is_405', **obs)

    if (body is not None and case['consume'] == 'all' and wsgi_spec.may_have_body(x.code, method)
            and x.body != body):
        return fail('B.body', expected=body, observed=x.body, **obs)

    # close(): exactly once for what produced output
    for c in W.closers:
        if c.produced and c.close_calls != 1:
            return fail('K.close_once', kind='closeable iterable', produced=c.produced, close_calls=c.close_calls, **obs)
    for tr in W.gens:
        if tr.produced and tr.finalized != 1:
            return fail('K.close_once', kind='generator', produced=tr.produced, finalized=tr.finalized, **obs)
    for f in W.files:
        if f.produced and isinstance(f, FileClose) and f.close_calls != 1:
            return fail('K.close_once', kind='file-like', produced=f.produced, close_calls=f.close_calls, **obs)

    # hooks
    nb, na = hk['nb'], hk['na']
    bf = int(hook_fail[1:]) if hook_fail and hook_fail[0] == 'b' else None
    exp_before = ['b%d' % i for i in range(1, (bf or nb) + 1)]
    got_before = [e for e in log if e[0] == 'b']
    if got_before != exp_before:
        return fail('H.before_once_in_order', expected=exp_before, **obs)
    handler_runs = route == 'normal' and bf is None
    if ('H' in log) != handler_runs or log.count('H') > 1:
        return fail('H.before_routing' if hk['rewrite'] else 'H.handler_once', handler_expected=handler_runs, **obs)
    if 'H' in log and any(e[0] == 'b' for e in log[log.index('H'):]):
        return fail('H.before_precedes_handler', **obs)
    if not (hook_fail and hook_fail[0] == 'a'):
        exp_after = ['a%d' % i for i in range(na, 0, -1)]
        got_after = [e for e in log if e[0] == 'a']
        if got_after != exp_after:
            return fail('H.after_once_reverse_order', expected=exp_after, **obs)
        first_after = log.index(exp_after[0]) if exp_after else len(log)
        if any(e[0] in 'bH' for e in log[first_after:]):
            return fail('H.after_follows_handler', **obs)
    return None


def _head_last_resort(case, failure):
    """HEAD request that ends in the last-resort 'Critical error' page of Ombott.wsgi (an error handler
    raised): the page is returned as body although the method is HEAD."""
    chunks = failure.get('chunks') or [{}]
    first = chunks[0].get('__bytes__', '') if isinstance(chunks[0], dict) else ''
    return (failure.get('clause') == 'W.no_body' and case['method'] == 'HEAD'
            and failure.get('status') == '500 INTERNAL SERVER ERROR' and first.startswith('<h1>Critical error'))


FINDINGS = {'C03-head-last-resort-body': _head_last_resort}
