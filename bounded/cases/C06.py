"""C06 bounded stand-in / replay harness: multipart parsing is independent of how the body is split into reads.

Contract checked at run time on the REAL code (compositionality of the streaming step, observed from the initial state):

  M  (unit, `MultipartMarkup(boundary).parse`)  for a string s that is a well-formed multipart body or a prefix of one
     and a division of s into consecutive NON-EMPTY chunks c1..ck:   feed(c1), ..., feed(ck)  gives the same
     `markups` (same sections, same absolute offsets) and the same error class (or None) as feed(s) in one piece.
       M1.single_cut   every single cut position
       M2.double_cut   every pair of cut positions (long strings: every pair whose middle or last chunk is short)
       M3.regular_cuts every buffer size 1..len-1 (size 1 = byte-at-a-time)
       M4.multi_cut    every composition (len <= 10), every run of three short chunks anywhere, seeded random k-cuts
       M0.runaway_sections / hang   the parser emitted more sections than the string has bytes, or did not return
  A0 (anti-vacuity anchor, complete well-formed bodies only) the one-piece result has no error and its header/data
     ranges are those of the independent reference splitter spec/multipart_spec.split ("each part's header block and
     exact data range"): a parser that finds nothing would satisfy M trivially.
  E  (end to end, `Request.forms` / `Request.files` inside a handler reached through `Ombott.__call__`)  what the handler
     sees (every text field, every upload's name/filename/exact content, or the class of the exception) and the
     response status are the same for every division the body reader produces (Content-Length framing with scripted
     short reads, buffer-regular reads for varied max_memfile_size incl. the spooled-to-disk path, chunked framing) as for
     the same bytes read in one piece.
       E1.divided_vs_one_piece
     max_memfile_size also bounds what ombott keeps in memory per request, so every value used is >= the number of
     non-file bytes of the body + 48: a size refusal can then never be a legitimate effect of the configuration.

The well-formed space is the one of spec/multipart_spec.wellformed_status (no preamble, non-empty header lines free of
CR/LF, data free of the delimiter, optional CRLF+epilogue), minus the strings on which the two spec functions disagree
(dash-boundary right behind a header block's blank line, a header line that starts with the dash-boundary).
"""
import hashlib
import itertools
import random

from bounded.common import FragStream, make_environ, serve, fail, chunk_encode
from spec import multipart_spec as ms

BOUND = ('unit (MultipartMarkup.parse), boundary X, alphabet {CR,LF,-,X,h}: (dfs) EVERY well-formed-prefix string of length <=12 '
         '(quick) / <=14 (thorough), epilogue <=3; (ss) every body --X CRLF h CRLFCRLF D CRLF--X T with D = every string of '
         'length <=3 (quick) / <=5 (thorough) over the alphabet, T = close+CRLF+each letter and 3 epilogues that look like '
         'delimiters (all 9 T for |D|<=1 quick / <=4 thorough), a second part with 5 data values; every header block of <=3 lines '
         'over {h,-,X} (line lengths <=3 / <=2,<=2 / 1,1,1); D = every concatenation of <=2 (quick) / <=3 (thorough) of 9 delimiter '
         'look-alike tokens for boundaries X and --a-; and ALL prefixes of all these bodies.  (gen) boundaries {X, -, --a-, bnd, '
         '"a b", 38-char WebKit, 70 chars} x 0-4 parts x header blocks {h, 2 lines, RFC 7578 text, RFC 7578 file+type} x ~40 '
         'adversarial data values (CR/LF/dash runs, every proper prefix of the delimiter, delimiter with last byte changed or '
         'interrupted by exactly one/two search windows of filler, window-sized fillers +-1, next part starting with every '
         'delimiter remainder, all 256 byte values) x endings {none, CRLF, epilogue, epilogue that is a close-delimiter}, and '
         'their prefixes (all of them for bodies of short boundaries; for long boundaries / long data every k-th plus windows '
         'around every delimiter, header end and the close).  Each distinct string once, checked with: every single cut; every '
         'double cut (strings <=56 bytes quick / <=100 thorough, complete bodies <=320 bytes thorough; longer strings: every pair '
         'with a middle chunk <=3 or a last chunk of 1..12 or delimiter-2..delimiter+6 bytes); every regular buffer size incl. '
         'byte-at-a-time; every composition for length <=10; every run of three chunks of sizes 1..2 (quick) / 1..3 (thorough) at '
         'every offset; 4 (quick) / 16 (thorough) seeded random 3..7-cuts.  (app) through Ombott.__call__ -> Request.forms/'
         'files, 4 RFC 7578 field lists (text + uploads with adversarial content) x boundaries {X, --a-} (quick) + {bnd, WebKit} '
         '(thorough) x endings, complete bodies and prefixes (every prefix near the close, every 29th/7th elsewhere): every '
         'single cut and near double cuts as scripted short reads, 1/2/3 bytes at a time, short last chunk, EVERY '
         'max_memfile_size from non-file-bytes+48 to len(body) with buffer-regular reads (body spooled to a temporary file), '
         'chunked framing with the cuts as chunk sizes.  The listed space is enumerated completely; only the random k-cuts and the '
         'composition of multi-part bodies are seeded.')
NONTRIVIAL_RULE = ('distinct (kind, boundary, string/body, prefix length, division plan); non-trivial = the string is at least 2 '
                   'bytes long (a division exists) and reaches beyond the first dash-boundary')

CRLF = b'\r\n'
ALPHA = b'\r\n-Xh'
LETTERS = [bytes([c]) for c in ALPHA]


def exhaustive(tier):
    return False   # the listed finite space is enumerated completely, but seeded random cuts/bodies are added


def nontrivial(case):
    if case['kind'] == 'mk':
        return len(case['s']) >= 2 and len(case['s']) > len(case['bd']) + 2
    return case['clen'] > len(case['bd']) + 2


# ------------------------------------------------------------------------------------------------ generation

def _split(s, bd):
    """spec split of a well-formed body or prefix; tolerates the one prefix shape the reference splitter refuses
    (the string ends with the CR of the CRLF behind the close-delimiter). None where the splitter refuses."""
    if len(s) < len(bd) + 2:
        return {'parts': [], 'closed': False, 'close_end': None, 'epilogue': None}
    try:
        return ms.split(s, bd)
    except ValueError:
        if s.endswith(b'\r'):
            try:
                sp = ms.split(s[:-1], bd)
            except ValueError:
                return None
            if sp['close_end'] == len(s) - 1:
                return sp
        return None


def _split_ok(s, bd):
    """False where the reference splitter refuses the string (the two spec functions disagree: excluded)."""
    return _split(s, bd) is not None


def _strings_upto(k, letters=LETTERS):
    yield b''
    for n in range(1, k + 1):
        for t in itertools.product(letters, repeat=n):
            yield b''.join(t)


def _dfs_start_region(bd, maxlen, max_epilogue):
    """Every well-formed-prefix string of length 1..maxlen over ALPHA (header lines must not start with the dash-boundary)."""
    dash = b'--' + bd

    def line_ok(line, complete):
        return not line.startswith(dash)

    def rec(s, behind):
        for c in LETTERS:
            t = s + c
            st = ms.wellformed_status(t, bd, line_ok)
            if st is None:
                continue
            b = (behind + 1) if behind is not None else (0 if st == 'complete' else None)
            if b is not None and b > max_epilogue:
                continue
            yield t, st
            if len(t) < maxlen:
                yield from rec(t, b)
    yield from rec(b'', None)


def _header_blocks():
    hl = [bytes([c]) for c in b'h-X']
    lines = {n: [b''.join(t) for t in itertools.product(hl, repeat=n)] for n in (1, 2, 3)}
    for n in (1, 2, 3):
        for a in lines[n]:
            yield a
    for a in lines[1] + lines[2]:
        for b in lines[1] + lines[2]:
            yield a + CRLF + b
    for a in lines[1]:
        for b in lines[1]:
            for c in lines[1]:
                yield a + CRLF + b + CRLF + c


def _tokens(bd):
    delim = CRLF + b'--' + bd
    return [b'\r', b'\n', b'-', CRLF, CRLF + b'-', CRLF + b'--', delim[:-1], bd, b'h']


def _ss_bodies(tier):
    """Complete small-scope bodies (boundary X and --a-); their prefixes are generated by _prefix_cases."""
    bd = b'X'
    dash = b'--' + bd
    delim = CRLF + dash
    kd = 3 if tier == 'quick' else 5
    stem = dash + CRLF + b'h' + CRLF + CRLF
    terms = [b'--'] + [b'--' + CRLF + e for e in LETTERS] + [b'--' + CRLF + delim + b'--', b'--' + CRLF + dash + CRLF + b'h' + CRLF + CRLF,
                                                             b'--' + CRLF + b'----']
    second = [b'', b'\r', b'-', CRLF + b'--', CRLF + b'--h']
    for d in _strings_upto(kd):
        if delim in CRLF + d:
            continue
        if tier == 'quick':
            tt = terms if len(d) <= 1 else terms[:6]
        else:
            tt = terms if len(d) <= 4 else terms[1:2]
        for t in tt:
            yield bd, stem + d + delim + t
        if len(d) <= kd - 1:
            for d2 in second:
                yield bd, stem + d + delim + CRLF + b'h' + CRLF + CRLF + d2 + delim + b'--' + CRLF
    for hb in _header_blocks():
        if any(line.startswith(dash) for line in hb.split(CRLF)):
            continue
        for d in ((b'\r',) if tier == 'quick' else (b'', b'\r', b'-')):
            yield bd, dash + CRLF + hb + CRLF + CRLF + d + delim + b'--' + CRLF
    for e in _strings_upto(3):
        yield bd, dash + b'--' + CRLF + e
    for bd in (b'X', b'--a-'):
        dash = b'--' + bd
        delim = CRLF + dash
        stem = dash + CRLF + b'h' + CRLF + CRLF
        toks = _tokens(bd)
        kt = 2 if tier == 'quick' else 3
        for n in range(1, kt + 1):
            for combo in itertools.product(toks, repeat=n):
                d = b''.join(combo)
                if delim in CRLF + d:
                    continue
                yield bd, stem + d + delim + b'--' + CRLF
                if n <= 2:
                    yield bd, stem + d + delim + CRLF + b'h' + CRLF + CRLF + delim + b'--'


SHORT_BOUNDARIES = [b'X', b'-', b'--a-', b'bnd', b'a b']
WEBKIT = b'----WebKitFormBoundary7MA4YWxkTrZu0gW'
LONG70 = b'0123456789' * 7


def _gen_headers():
    return [b'h',
            b'a: b' + CRLF + b'c-d: e--f',
            b'Content-Disposition: form-data; name="n1"',
            b'Content-Disposition: form-data; name="up"; filename="f.bin"' + CRLF + b'Content-Type: application/octet-stream']


def _gen_data(bd):
    delim = CRLF + b'--' + bd
    tl = len(delim)
    out = [b'', b'v', b'\r', b'\n', CRLF, b'\n\r', b'-', b'--', b'\r\r\n', CRLF + CRLF, CRLF * 3 + b'\r', b'-' * 7,
           delim[:-1] + b'\x00', delim[:-1] + CRLF, delim[:-1] * 2, b'\r' + delim[:-1], b'x--' + bd + b'--', b'x--' + bd + CRLF,
           (CRLF + b'--') * 3, b'a' * (tl - 1), b'a' * tl, b'a' * (tl + 1), b'a' * (2 * tl - 1) + b'\r', b'a' * (tl - 2) + CRLF + b'-']
    out += [delim[:k] for k in range(3, min(tl, 12)) if delim[:k] not in out]
    out += [b'a' * k + delim[:3] for k in range(0, min(tl, 9))]
    return out


def _interrupted(bd, fills):
    """a delimiter interrupted by exactly one (two) search window(s) of filler: delim[:k] + filler + delim[k:]"""
    delim = CRLF + b'--' + bd
    tl = len(delim)
    for k in range(1, tl):
        for f in fills:
            yield delim[:k] + b'a' * (tl * f) + delim[k:]
            yield b'a' + delim[:k] + b'\r' * (tl * f) + delim[k:]


def _all_bytes(bd):
    return bytes(range(256)).replace(CRLF + b'--' + bd, b'')


ENDINGS = [dict(), dict(final_crlf=True), dict(epilogue=b'ep'), dict(epilogue=b'\r\n--%b--\r\n')]


def _ending(e, bd):
    e = dict(e)
    if b'%b' in e.get('epilogue', b''):
        e['epilogue'] = e['epilogue'].replace(b'%b', bd)
    return e


def _build(parts, bd, e):
    if not ms.legal_boundary(parts, bd):
        return None
    return ms.build(parts, bd, **_ending(e, bd))


def _gen_bodies(tier, seed):
    """(boundary, complete body, prefix selection) of the generated family; deterministic.
    selection 0 = every prefix, k > 0 = every k-th prefix length plus windows around the structural positions."""
    rnd = random.Random(seed * 7919 + 17)
    hdrs = _gen_headers()
    quick = tier == 'quick'
    for bi, bd in enumerate(SHORT_BOUNDARIES):
        data = _gen_data(bd)
        for e in ENDINGS:
            yield bd, ms.build([], bd, **_ending(e, bd)), 0
        for di, d in enumerate(data):
            if quick:
                combos = [(hdrs[(di + bi) % 2], ENDINGS[(di + bi) % 4])]
            else:
                combos = [(h, e) for h in hdrs[:2] for e in ENDINGS]
            for h, e in combos:
                yield bd, _build([(h, d)], bd, e), 0
        # a stale partial match must not survive a window
        if len(bd) <= 4 and (not quick or bi in (0, 2)):
            for d in _interrupted(bd, (1,) if quick else (1, 2)):
                yield bd, _build([(b'h', d)], bd, ENDINGS[1]), 0
        # state left behind by one delimiter must not leak into the next part: the next data starts like a delimiter remainder
        if len(bd) <= 4 and (not quick or bi in (0, 2)):
            delim = CRLF + b'--' + bd
            for k in range(1, len(delim)):
                for d1 in ((delim[:k],) if quick else (delim[:k], b'', b'a')):
                    yield bd, _build([(b'h', d1), (b'h', delim[k:] + b'z')], bd, ENDINGS[0]), 0
        # RFC 7578 header blocks
        for hi in (2, 3):
            for di in ((1, 14) if quick else (0, 1, 12, 14, 18)):
                if quick and bi not in (0, 2):
                    continue
                yield bd, _build([(hdrs[hi], data[di])], bd, ENDINGS[(hi + di) % 4]), 0
        # 2..4 parts, seeded
        small = [d for d in data if len(d) <= 12]
        for k in ([2, 3] if quick else [2, 2, 2, 3, 3, 3, 4, 4, 2, 3, 4, 2]):
            parts = [(rnd.choice(hdrs[:2]), rnd.choice(small)) for _ in range(k)]
            yield bd, _build(parts, bd, rnd.choice(ENDINGS)), 0
        if not quick:
            parts = [(rnd.choice(hdrs), rnd.choice(data)) for _ in range(3)]
            yield bd, _build(parts, bd, ENDINGS[bi % 4]), 3
    # all byte values as data (long filler: many full search windows)
    yield b'X', _build([(b'h', _all_bytes(b'X'))], b'X', ENDINGS[1]), (9 if quick else 2)
    if not quick:
        yield b'--a-', _build([(hdrs[3], _all_bytes(b'--a-')), (b'h', b'\r')], b'--a-', ENDINGS[3]), 3
        yield WEBKIT, _build([(hdrs[3], _all_bytes(WEBKIT)[:150])], WEBKIT, ENDINGS[1]), 5
    # long boundaries
    for bd, sel in ((WEBKIT, 3), (LONG70, 4)):
        data = _gen_data(bd)
        if quick:
            picks = [(0, 1, 1)] if bd is WEBKIT else [(0, 2, 2)]
        else:
            picks = [(di % 2, di, di % 4) for di in range(0, len(data), 3 if bd is WEBKIT else 7)]
        for hi, di, ei in picks:
            yield bd, _build([(hdrs[hi], data[di])], bd, ENDINGS[ei]), (sel if not quick else sel * 2)
        if not quick:
            yield bd, _build([(hdrs[2], data[12]), (hdrs[3], data[13]), (b'h', b'')], bd, ENDINGS[3]), sel * 3


def _selected(body, bd, step):
    n = len(body)
    if not step:
        return range(1, n + 1)
    sp = ms.split(body, bd)
    w = min(len(bd) + 4, 12) + 3
    pts = {0, n, sp['close_end'] or n}
    for a, b, c, d in sp['parts']:
        pts.update((b, d))
    sel = set(range(step, n + 1, step))
    for p in pts:
        sel.update(range(max(1, p - 2), min(n, p + w) + 1))
    return sorted(sel)


def _prefix_cases(bodies, fam, tier):
    """Each distinct (selected) non-empty prefix of the given (boundary, body, selection) list exactly once, as 'mk' cases."""
    dlim = 56 if tier == 'quick' else 100
    full_dlim = 56 if tier == 'quick' else 320
    nrand = 4 if tier == 'quick' else 16
    by_bd = {}
    for bd, body, sel in bodies:
        if body is None:
            continue
        d = by_bd.setdefault(bd, {})
        d[body] = min(sel, d.get(body, sel))
    for bd in sorted(by_bd):
        prev = b''
        for body in sorted(by_bd[bd]):
            lcp = 0
            m = min(len(prev), len(body))
            while lcp < m and prev[lcp] == body[lcp]:
                lcp += 1
            prev = body
            for ln in _selected(body, bd, by_bd[bd][body]):
                if ln <= lcp:
                    continue
                s = body[:ln]
                if not _split_ok(s, bd):
                    continue
                complete = ln == len(body)
                lim = full_dlim if complete else dlim
                yield dict(kind='mk', fam=fam, bd=bd, s=s, complete=1 if complete else 0,
                           dbl='all' if ln <= lim else 'near', nrand=nrand, tri=2 if tier == 'quick' else 3)


def _app_fields(bd):
    """Field lists for the end-to-end family (simple unique names; the value space of C07 is not repeated here)."""
    delim = CRLF + b'--' + bd
    adv = (delim[:-1] + b'\r' + CRLF + b'--' + b'-' * 5 + delim[:-1] + b'\x00' + CRLF * 2 + delim[:3]) * 2 + _all_bytes(bd)[:160]
    return [
        [('text', 'a', 'v1'), ('file', 'up', 'f.bin', 'application/octet-stream', adv), ('text', 'b', '')],
        [('file', 'up', 'f.bin', None, b'\r'), ('text', 'a', '-'), ('file', 'u2', 'g', 'text/plain', adv[:40] + b'\r')],
        [('text', 'a', '\r\n--'), ('text', 'b', 'x')],
        [('file', 'up', 'e', None, b'')],
    ]


def _ranges(lo, hi, width):
    for a in range(lo, hi, width):
        yield a, min(a + width, hi)


def _app_cases(tier, seed):
    """Compact cases: (body, prefix length, plan family, index range); run_case expands the range into the concrete runs."""
    quick = tier == 'quick'
    bds = [b'X', b'--a-'] if quick else [b'X', b'--a-', b'bnd', WEBKIT]
    for bd in bds:
        tl = len(bd) + 4
        for fi, fields in enumerate(_app_fields(bd)):
            for ei, e in enumerate(ENDINGS):
                if quick and ei in (0, 2):
                    continue
                e = _ending(e, bd)
                try:
                    body = ms.encode(fields, bd, final_crlf=e.get('final_crlf', False), epilogue=e.get('epilogue', b''))
                except ValueError:
                    continue
                n = len(body)
                nonfile = n - sum(len(f[4]) for f in fields if f[0] == 'file')
                ce = ms.close_delimiter_end(body, bd)
                # prefix lengths: the complete body; for the longest ending every prefix around the end and every k-th elsewhere
                # (bodies that differ only in the ending share all other prefixes)
                clens = [n] + list(range(ce - 3, n))
                if ei == 3:
                    clens += list(range(max(1, ce - 2 * tl - 8), n)) + list(range(1, n, 29 if quick else 7))
                for clen in sorted(set(c for c in clens if c >= 1)):
                    full = clen == n

                    def case(plan, lo, hi, step=1, **kw):
                        return dict(kind='app', bd=bd, body=body, clen=clen, nonfile=nonfile, plan=plan, lo=lo, hi=hi, step=step, **kw)
                    # (a) scripted short reads with a large buffer: every single cut, byte/2/3-at-a-time
                    for a, b in _ranges(1, clen, 32 if (full or not quick) else 96):
                        yield case('single', a, b, 1 if (full or not quick) else 3)
                    yield case('tails', 1, 4)
                    # near double cuts (middle chunk 1..3) and short last chunk
                    if full or not quick:
                        lo = 1 if full else max(1, clen - min(3 * tl, 40))
                        for a, b in _ranges(lo, clen - 1, 12):
                            yield case('near', a, b, 2 if quick else 1)
                        for a, b in _ranges(lo, clen - 1, 12):
                            yield case('lastshort', a, b, 3 if (quick or full) else 1, w=min(tl + 5, 14))
                    # (b) every max_memfile_size from the safe lower bound to the body length: regular reads, spooled body
                    lo = nonfile + 48
                    if clen > lo and (full or clen % (7 if quick else 3) == 0):
                        for a, b in _ranges(lo, clen, 32):
                            yield case('buffs', a, b, 1 if full else (5 if quick else 2))
                        yield case('spooled', 1, min(clen, lo), 9, buff=lo)
                    # (c) chunked framing: the cuts are the chunk sizes
                    if full or clen % 9 == 0:
                        for a, b in _ranges(1, clen, 64):
                            yield case('chunked', a, b, 1 if (full and not quick) else 4)


def gen_cases(tier, seed):
    quick = tier == 'quick'
    # (ss) start region, exhaustive DFS
    for s, st in _dfs_start_region(b'X', 12 if quick else 14, 3):
        if _split_ok(s, b'X'):
            yield dict(kind='mk', fam='dfs', bd=b'X', s=s, complete=1 if st == 'complete' else 0, dbl='all', nrand=4 if quick else 12, tri=2 if quick else 3)
    # (ss) stem + exhaustive data + terminators, header blocks, token data: all prefixes, each once
    yield from _prefix_cases(((bd, body, 0) for bd, body in _ss_bodies(tier)), 'ss', tier)
    # (gen) generated well-formed bodies and their prefixes
    yield from _prefix_cases(_gen_bodies(tier, seed), 'gen', tier)
    # (app) through the application
    yield from _app_cases(tier, seed)


# ------------------------------------------------------------------------------------------------ checking

class _Runaway(BaseException):
    """raised by the guard below; a BaseException so that MultipartMarkup.parse (except Exception) cannot swallow it"""


class _Bounded(list):
    """`markups` list that refuses to grow beyond any possible number of sections: a broken parser that loops while
    emitting sections is reported as a failure instead of eating the machine's memory."""
    limit = 0

    def append(self, item):
        if len(self) >= self.limit:
            raise _Runaway()
        list.append(self, item)


def setup():
    """Backstop for run-away allocations inside the code under check (per worker process)."""
    try:
        import resource
        soft, hard = resource.getrlimit(resource.RLIMIT_AS)
        cap = 3 << 30
        if soft == resource.RLIM_INFINITY or soft > cap:
            resource.setrlimit(resource.RLIMIT_AS, (cap, hard))
    except Exception:   # noqa - the guard is optional
        pass


def _feed(bd, s, cuts):
    from ombott.request_pkg.multipart import MultipartMarkup
    m = MultipartMarkup(bd)
    if type(m.markups) is list and not m.markups:
        guard = _Bounded()
        guard.limit = 2 * len(s) + 8
        m.markups = guard
    prev = 0
    for c in cuts:
        m.parse(s[prev:c])
        prev = c
    m.parse(s[prev:])
    return m


def _hung(m):
    """the runner's per-case alarm fired inside parse(), which stored it as the parsing error"""
    return type(m.error).__name__ == '_Hang'


def _res(m):
    secs = []
    for item in m.markups:
        name, (a, b) = item
        secs.append([name, int(a), int(b)])
    return secs, (type(m.error).__name__ if m.error is not None else None)


def _divisions(s, bd, dbl, nrand, tri=3):
    """(clause, cuts) for every division of the plan; cuts are strictly increasing positions in 1..n-1."""
    n = len(s)
    for i in range(1, n):
        yield 'M1.single_cut', (i,)
    for k in range(1, n):
        if k * 2 >= n:
            break           # a size >= n/2 gives at most one or two chunks: already single cuts, except the pair below
        yield 'M3.regular_cuts', tuple(range(k, n, k))
    if dbl == 'all':
        for i in range(1, n):
            for j in range(i + 1, n):
                yield 'M2.double_cut', (i, j)
    else:
        tl = len(bd) + 4
        last = sorted(set(range(1, 13)) | set(range(max(1, tl - 2), tl + 7)))     # sizes of a short last chunk
        for i in range(1, n):
            js = set(range(i + 1, min(i + 4, n)))
            js.update(n - w for w in last if n - w > i)
            for j in sorted(js):
                yield 'M2.double_cut', (i, j)
    if n <= 10:
        for mask in range(1 << (n - 1)):
            cuts = tuple(p + 1 for p in range(n - 1) if mask >> p & 1)
            if len(cuts) >= 3:
                yield 'M4.multi_cut', cuts
    else:
        for i in range(1, n):
            for a in range(1, tri + 1):
                for b in range(1, tri + 1):
                    if i + a + b < n:
                        yield 'M4.multi_cut', (i, i + a, i + a + b)
    if n >= 5 and nrand:
        rnd = random.Random(int.from_bytes(hashlib.blake2b(bd + b'|' + s, digest_size=8).digest(), 'big'))
        for _ in range(nrand):
            k = rnd.randrange(3, min(8, n))
            yield 'M4.multi_cut', tuple(sorted(rnd.sample(range(1, n), k)))


def _anchor(s, bd, ref):
    """A0: one-piece result of a complete body against the reference splitter."""
    secs, err = ref
    sp = ms.split(s, bd)
    exp_h = [[a, b] for a, b, c, d in sp['parts']]
    exp_d = [[c, d] for a, b, c, d in sp['parts']]
    got_h = [[a, b] for name, a, b in secs if name == 'headers']
    got_d = [[a, b] for name, a, b in secs if name == 'data']
    if got_d[:1] == [[0, 0]]:
        got_d = got_d[1:]          # the (empty) section in front of the first dash-boundary
    if err is not None or got_h != exp_h or got_d != exp_d or not sp['closed']:
        return fail('A0.sections_vs_reference_splitter', s=s, boundary=bd, expected_headers=exp_h, expected_data=exp_d,
                    observed_sections=secs, observed_error=err)
    return None


def _run_mk(case):
    s, bd = case['s'], case['bd']
    if ms.wellformed_status(s, bd) is None:
        raise AssertionError('generator produced a string outside the well-formed space: %r' % (s,))
    try:
        refm = _feed(bd, s, ())
    except _Runaway:
        return fail('M0.runaway_sections', s=s, boundary=bd, cuts=[])
    if _hung(refm):
        return fail('hang', s=s, boundary=bd, cuts=[])
    ref_markups, ref_err = refm.markups, type(refm.error)
    ref = _res(refm)
    if case['complete']:
        f = _anchor(s, bd, ref)
        if f is not None:
            return f
    for clause, cuts in _divisions(s, bd, case['dbl'], case['nrand'], case.get('tri', 3)):
        try:
            m = _feed(bd, s, cuts)
        except _Runaway:
            return fail('M0.runaway_sections', s=s, boundary=bd, cuts=list(cuts))
        if m.markups != ref_markups or type(m.error) is not ref_err:
            cuts = list(cuts)
            if _hung(m):
                return fail('hang', s=s, boundary=bd, cuts=cuts)
            chunks = [s[a:b] for a, b in zip([0] + cuts, cuts + [len(s)])] if len(cuts) <= 8 else None
            return fail(clause, s=s, boundary=bd, cuts=cuts, chunks=chunks, expected=ref, observed=_res(m),
                        expected_error_text=repr(refm.error), observed_error_text=repr(m.error))
    return None


def _app_once(bd, wire, clen, buff, script, tail, chunked):
    """One request through the real application. Returns (what the handler and the server saw, the stream)."""
    import ombott
    app = ombott.Ombott({'max_memfile_size': buff})
    seen = {}

    @app.route('/u', method='POST')
    def h():
        req = app.request
        try:
            forms, files = req.forms, req.files
            fo = []
            for k in sorted(forms):
                v = forms[k]
                fo.append([k, [x for x in (v if isinstance(v, list) else [v])]])
            fi = []
            for k in sorted(files):
                v = files[k]
                fi.append([k, [[u.name, u.raw_filename, u.file.read()] for u in (v if isinstance(v, list) else [v])]])
            seen['forms'], seen['files'] = fo, fi
        except Exception as e:   # noqa - the class of what the handler gets is the observation; then let the app answer
            seen['exc'] = type(e).__name__
            seen['exc_status'] = getattr(e, 'status_code', None)
            ctx = e.__cause__ or e.__context__
            seen['exc_cause'] = type(ctx).__name__ if ctx is not None else None
            raise
        return 'ok'
    stream = FragStream(wire, script, tail or None)
    env = make_environ('/u', 'POST', stream=stream, content_type=ms.content_type_header(bd),
                       content_length=None if chunked else clen, chunked=chunked)
    res = serve(app, env)
    out = dict(seen)
    out['status'] = res.code
    if res.exc is not None:
        out['escaped'] = type(res.exc).__name__
    return out, stream


def _plans(case):
    """Expand a compact app case into its concrete runs: dicts with buff, script, tail and optionally chunks."""
    clen, lo, hi, step = case['clen'], case['lo'], case['hi'], case['step']
    big = len(case['body']) + case['nonfile'] + 64
    kind = case['plan']
    if kind == 'single':
        return [dict(buff=big, script=[i], tail=0) for i in range(lo, hi, step)]
    if kind == 'tails':
        return [dict(buff=big, script=[], tail=t) for t in range(lo, hi, step)]
    if kind == 'near':
        return [dict(buff=big, script=[i, w], tail=0) for i in range(lo, hi, step) for w in (1, 2, 3) if i + w < clen]
    if kind == 'lastshort':
        return [dict(buff=big, script=[i, clen - i - w], tail=0) for i in range(lo, hi, step) for w in range(1, case['w'] + 1)
                if clen - i - w > 0]
    if kind == 'buffs':
        return [dict(buff=b, script=[], tail=0) for b in range(lo, hi, step)]
    if kind == 'spooled':
        b = case['buff']
        return [dict(buff=b, script=[], tail=t) for t in (1, 7, b - 1)] + [dict(buff=b, script=[i], tail=0) for i in range(lo, hi, step)]
    if kind == 'chunked':
        out = [dict(buff=big, script=[], tail=0, chunks=[i]) for i in range(lo, hi, step)]
        out += [dict(buff=big, script=[], tail=0, chunks=[i, i + 2]) for i in range(lo, hi, step) if i % 5 == 1 and i + 2 < clen]
        return out
    raise ValueError(kind)


def _reader_cuts(n, buff, script, tail):
    """Cut positions the Content-Length reader produces: it asks for min(rest, buff) and feeds every answer as one chunk."""
    cuts, pos, k = [], 0, 0
    while pos < n:
        lim = script[k] if k < len(script) else tail
        k += 1
        take = min(buff, n - pos)
        if lim:
            take = min(take, lim)
        pos += take
        if pos < n:
            cuts.append(pos)
    return cuts


def _guard(bd, body, cuts):
    """Run-away/hang guard in front of an application run (the same parser is driven by the body reader there)."""
    try:
        m = _feed(bd, body, cuts)
    except _Runaway:
        return fail('M0.runaway_sections', s=body, boundary=bd, cuts=cuts)
    if _hung(m):
        return fail('hang', s=body, boundary=bd, cuts=cuts)
    return None


def _run_app(case):
    bd, clen = case['bd'], case['clen']
    body = case['body'][:clen]
    n = len(body)
    f = _guard(bd, body, [])
    if f is not None:
        return f
    ref, _ = _app_once(bd, body, clen, 2 * len(case['body']) + case['nonfile'] + 128, [], 0, False)
    for plan in _plans(case):
        chunks = plan.get('chunks')
        if chunks:
            fed = [c for c in chunks if 0 < c < n]
        else:
            fed = _reader_cuts(n, plan['buff'], plan['script'], plan['tail'])
        f = _guard(bd, body, fed)
        if f is not None:
            return f
        if chunks:
            cuts = [0] + fed + [n]
            wire = chunk_encode([body[a:b] for a, b in zip(cuts, cuts[1:])])
            got, stream = _app_once(bd, wire, None, plan['buff'], plan['script'], plan['tail'], True)
        else:
            got, stream = _app_once(bd, body, clen, plan['buff'], plan['script'], plan['tail'], False)
        if got != ref:
            return fail('E1.divided_vs_one_piece', boundary=bd, body=body, plan=plan, cuts=fed, expected=ref, observed=got)
    return None


def run_case(case):
    if case['kind'] == 'mk':
        return _run_mk(case)
    return _run_app(case)


# ------------------------------------------------------------------------------------------------ known defect classes

def _close_end(case):
    s = case['s'] if case['kind'] == 'mk' else case['body'][:case['clen']]
    sp = _split(s, case['bd'])
    return (sp['close_end'] if sp else None), len(s)


def _errs(case, failure):
    """(error class seen one-piece, error class seen divided, sections equal?, cut positions)"""
    if case['kind'] == 'mk':
        if not failure['clause'].startswith('M'):
            return None
        return failure['expected'][1], failure['observed'][1], failure['observed'][0] == failure['expected'][0], failure['cuts']
    if failure['clause'] != 'E1.divided_vs_one_piece':
        return None
    exp, obs = failure['expected'], failure['observed']
    name = lambda o: (o.get('exc_cause') if o.get('exc') == 'HTTPError' else o.get('exc'))   # noqa: E731
    return name(exp), name(obs), True, failure['cuts']


def _is_d3(case, failure):
    """closing delimiter split between its two hyphens and followed by more bytes in the same chunk ->
    UnexpectedBodyEndError (HeadersEaeter._eat_last_hyphen sliced two bytes and compared with one)."""
    ce, n = _close_end(case)
    e = _errs(case, failure)
    if ce is None or n <= ce or e is None:
        return False
    if not (e[0] is None and e[1] == 'UnexpectedBodyEndError' and (ce - 1) in e[3]):
        return False
    cuts = [c for c in e[3] if isinstance(c, int)]
    k = cuts.index(ce - 1)
    nxt = cuts[k + 1] if k + 1 < len(cuts) else n
    return nxt >= ce + 1        # the chunk that starts with the second hyphen holds at least one more byte


def _is_d4(case, failure):
    """bytes behind the closing delimiter arriving in a later chunk -> StopMarkupException stored as the error
    (same sections, only the error differs)."""
    ce, n = _close_end(case)
    e = _errs(case, failure)
    if ce is None or n <= ce or e is None:
        return False
    return e[0] is None and e[1] == 'StopMarkupException' and e[2] and any(c >= ce for c in e[3] if isinstance(c, int))


FINDINGS = {
    'D3-last-hyphen-two-byte-slice': _is_d3,
    'D4-epilogue-in-later-chunk-is-error': _is_d4,
}
