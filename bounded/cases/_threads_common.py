"""Deterministic thread scheduling for the concurrency case modules (C08, C10).

Real threads, one token.  Exactly one scheduled thread runs at any time; the token is handed over with
threading.Event objects at *points*.  A point is either

  * explicit: handler / hook / start_response code of the case module calls `sched.point(label)`; or
  * a traced line: with `trace_prefix` set, every 'line' event of a frame whose code lives under that directory
    (the ombott package of the tree under check) is a point -- statement granularity inside the framework.
    Code outside the prefix (stdlib, the case module) runs atomically between two points.

A schedule is a list of segments `[tid, k]`: thread `tid` gets the token, passes `k` points and hands the token
over when it arrives at the next one (k = -1: keeps it until it finishes).  Segments naming a finished thread are
skipped; when the list is used up the unfinished threads run to completion one after the other in tid order.
So `[[0, i], [1, -1]]` preempts thread 0 after i points, runs thread 1 completely inside that window and then lets
thread 0 finish: one preemption at a chosen statement.

`free=True` switches the token off: all threads are released together from a Barrier and race (the caller sets
sys.setswitchinterval); points are no-ops.  Failures found that way are real but need not replay.

Nothing here touches ombott; it only decides which thread may run.
"""
import sys
import threading


class Sched:
    def __init__(self, n, segments=(), trace_prefix=None, free=False, timeout=12.0, count_all=False):
        self.n = n
        self.segs = [list(s) for s in segments]
        self.si = 0
        self.trace_prefix = trace_prefix
        self.free = free
        self.count_all = count_all     # keep counting points after the last possible hand-over (measuring)
        self.timeout = timeout
        self.ev = [threading.Event() for _ in range(n)]
        self.done = [False] * n
        self.counts = [0] * n          # points seen so far, per thread
        self.cur = None
        self.budget = -1
        self.broken = None             # set when a hand-over timed out (harness trouble, never a verdict)
        self.switches = []             # (tid, point number, label) at every hand-over, for failure reports
        self.tl = threading.local()
        self.barrier = threading.Barrier(n) if free else None

    # ---------------------------------------------------------------- token
    def _next(self):
        while self.si < len(self.segs):
            tid, k = self.segs[self.si]
            self.si += 1
            if 0 <= tid < self.n and not self.done[tid]:
                return tid, k
        for tid in range(self.n):
            if not self.done[tid]:
                return tid, -1
        return None

    def _wait(self, tid):
        if not self.ev[tid].wait(self.timeout):
            self.broken = 'thread %d waited more than %ss for its turn' % (tid, self.timeout)
            self.free = True
            for e in self.ev:
                e.set()
        self.ev[tid].clear()

    def point(self, label=None):
        """A possible hand-over point of the calling thread (no-op on threads that are not scheduled)."""
        tid = getattr(self.tl, 'tid', None)
        if tid is None or self.free:
            return
        self.counts[tid] += 1
        if self.budget > 0:
            self.budget -= 1
            return
        if self.budget < 0:
            return
        # budget used up: hand over
        nxt = self._next()
        if nxt is None:      # cannot happen (this thread is not finished)
            self.budget = -1
            return
        ntid, k = nxt
        self.switches.append((tid, self.counts[tid], _label(label)))
        self.budget = k
        if ntid == tid:
            return
        self.cur = ntid
        self.ev[ntid].set()
        self._wait(tid)

    def _begin(self, tid):
        self.tl.tid = tid
        if self.free:
            try:
                self.barrier.wait(self.timeout)
            except threading.BrokenBarrierError:
                self.broken = 'barrier'
            return
        self._wait(tid)

    def _end(self, tid):
        self.tl.tid = None
        if self.free:
            self.done[tid] = True
            return
        self.done[tid] = True
        nxt = self._next()
        if nxt is not None:
            self.cur, self.budget = nxt
            self.ev[self.cur].set()

    # ---------------------------------------------------------------- tracing
    def _make_tracers(self, tid):
        """Trace functions of one thread.  A thread that holds the token with an unlimited budget keeps it until it
        finishes, so its statements need not be watched any more (unless they are being counted)."""
        prefix = self.trace_prefix
        counts = self.counts
        count_all = self.count_all

        def local(frame, event, arg):
            if event == 'line':
                b = self.budget
                if b > 0 and not self.free:
                    counts[tid] += 1
                    self.budget = b - 1
                elif b < 0 and not count_all:
                    return None
                else:
                    self.point(frame)
            return local

        def glob(frame, event, arg):
            if self.budget < 0 and not count_all:
                sys.settrace(None)
                return None
            if event == 'call' and frame.f_code.co_filename.startswith(prefix):
                return local
            return None
        return glob

    # ---------------------------------------------------------------- driver
    def run(self, fns, join_timeout=15.0):
        """Run fns[tid]() on n new threads under the schedule. -> list of (finished, result, exception)."""
        assert len(fns) == self.n
        box = [dict() for _ in fns]

        def body(tid):
            self._begin(tid)
            try:
                if self.trace_prefix and not self.free:
                    sys.settrace(self._make_tracers(tid))
                try:
                    box[tid]['r'] = fns[tid]()
                finally:
                    sys.settrace(None)
            except BaseException as e:  # noqa - handed to the caller
                box[tid]['e'] = e
            finally:
                self._end(tid)

        threads = [threading.Thread(target=body, args=(tid,), daemon=True) for tid in range(self.n)]
        for t in threads:
            t.start()
        if not self.free:
            nxt = self._next()
            if nxt is not None:
                self.cur, self.budget = nxt
                self.ev[self.cur].set()
        out = []
        for tid, t in enumerate(threads):
            t.join(join_timeout)
            out.append((not t.is_alive(), box[tid].get('r'), box[tid].get('e')))
        return out


def _label(label):
    if label is None or isinstance(label, (str, int)):
        return label
    try:     # a frame
        return '%s:%d' % (label.f_code.co_filename.rsplit('/', 1)[-1], label.f_lineno)
    except Exception:
        return repr(label)


def run_alone(fn, join_timeout=15.0):
    """fn() on a new, unscheduled thread. -> (finished, result, exception)"""
    box = {}

    def body():
        try:
            box['r'] = fn()
        except BaseException as e:  # noqa
            box['e'] = e
    t = threading.Thread(target=body, daemon=True)
    t.start()
    t.join(join_timeout)
    return (not t.is_alive(), box.get('r'), box.get('e'))


def interleavings(pieces):
    """All orders of the pieces of the threads (pieces[t] = number of code pieces of thread t, i.e. points + 1),
    each as a segment list."""
    n = len(pieces)
    left = list(pieces)
    seq = []

    def rec():
        if not any(left):
            yield list(seq)
            return
        for t in range(n):
            if left[t]:
                left[t] -= 1
                seq.append(t)
                yield from rec()
                seq.pop()
                left[t] += 1
    for order in rec():
        yield order_to_segments(order)


def order_to_segments(order):
    segs = []
    for t in order:
        if segs and segs[-1][0] == t:
            segs[-1][1] += 1
        else:
            segs.append([t, 0])
    return segs


def ombott_dir():
    """Directory of the ombott package under check (prefix for line tracing)."""
    import os
    import ombott
    return os.path.dirname(os.path.abspath(ombott.__file__)) + os.sep
