"""C09 bounded stand-in / replay harness: each response depends on its own request only; retention bounded.

Contract checked at run time on the REAL application object (statement of C09, nothing more):

  H1 (history)   one application serves r1..rk on ONE thread (fresh environ per request).  The
                 complete response to r_k -- status line, every header as a multiset (Set-Cookie
                 included), body, number of start_response calls, escaped exception -- equals the
                 response a FRESH application built by the same factory gives to r_k served alone.
  H0 (thread)    the response to r_k alone does not depend on which thread serves it: a fresh
                 application serving r_k alone on the thread that built it and a fresh application
                 serving r_k alone as the first request of a new worker thread answer identically
                 ("a function of that request alone": an empty history on a new worker thread is
                 a history too).
  R  (retention) N requests of one kind (or cycling through all kinds), every environ carrying a
                 weakref-able marker and a weakref-able wsgi.input; after gc.collect() at most
                 KEEP (=4) markers / input streams are alive, both after N and after 2N requests.
  R2 (retention of request data)  the same runs, every request with a path / identity of its own
                 (paths='distinct': N distinct paths, routed through a wildcard route or unrouted) or
                 all N requests identical (paths='same').  After gc.collect() the objects the
                 collector can reach (every tracked container and the untracked dicts / tuples /
                 lists hanging off them) are searched for the identities of the requests served; c(N) =
                 number of distinct identities still reachable after N requests.  "A constant number,
                 independent of N" is read as: c must stop growing.  Bounded caches of the standard
                 library (urllib.parse.urlsplit keeps 128 strings) are a constant and accepted;
                 reported is c(2N) > c(N)+KEEP and, after 2N further requests, c(4N) > c(2N)+KEEP
                 (a route-lookup memo keyed by the request path keeps one entry -- key, end-point
                 list, wildcard dict, 404 data -- per distinct path for good: c(N) = N).  The identity
                 token is derived from the case, so nothing an earlier case of the same worker
                 process left behind is counted.
  H1 on repeated requests (same=1): every request of the history carries the SAME identity, so the
                 last request is byte-for-byte a repetition of an earlier one; two kinds have a
                 handler that normalises ITS OWN request's wildcard arguments in place
                 (request.url_args['id'] = int(...), request.url_args[...] = tuple, extra key): the
                 repetition must be answered like the first time (= like a fresh application).

The reference is always computed by the real code (fresh application), never by a model, so
whatever the framework answers for a kind (e.g. a 500 for a malformed multipart body) is accepted
as long as it is the same answer with and without a history.
"""
import gc
import io
import itertools
import random
import threading
import weakref

from bounded.common import FragStream, make_environ, serve, fail, chunk_encode

KEEP = 4            # constant bound on per-request objects alive after any number of requests
JOIN_TIMEOUT = 15   # seconds; a thread that does not finish is reported, never waited for

KINDS = ['cookie', 'header', 'status', 'notfound', 'notallowed', 'badpath', 'badchunk', 'oversized',
         'badmultipart', 'crash', 'redirect', 'respcookie', 'static', 'echo', 'echo_empty', 'jsonerr', 'badvalue', 'badchunk_json',
         'argsint', 'argsmut', 'nopathinfo', 'nopathinfo_head']

BOUND = ('histories r1..rk over %d request kinds (%s): every sequence of length k<=3 (quick) / k<=4 (thorough) with '
         'debug off on the building thread; additionally every sequence of length <=2 (quick) / <=3 (thorough) for '
         '{debug on, debug off} x {history served on the building thread, on a new worker thread}; exhaustive. '
         'argsint / argsmut = wildcard routes whose handler rewrites request.url_args of its own request in place. '
         'Repeated requests (same=1, every request of the history carries the same identity, so r_k repeats an '
         'earlier request exactly): every history of length 2, and (K,K,K), (K,X,K) for all kinds K, X, debug off, '
         'building thread and worker thread for length 2. '
         'Retention: N in {200} (quick) / {200, 2000} (thorough) requests of each kind and of the round-robin mix, '
         'counted after N and after 2N, with N distinct paths/identities (markers, input streams AND request '
         'identities reachable from gc-visible objects are counted) and with N identical requests.'
         % (len(KINDS), ', '.join(KINDS)))
NONTRIVIAL_RULE = ('distinct (mode, kinds, debug, where, same, N, paths); non-trivial = history of length >= 2 '
                   '(something was served before r_k) or a retention run')


def exhaustive(tier):
    return True


def nontrivial(case):
    return case['mode'] == 'retain' or len(case['kinds']) >= 2


def gen_cases(tier, seed):
    kfull = 3 if tier == 'quick' else 4
    kside = 2 if tier == 'quick' else 3
    for k in range(1, kfull + 1):
        for kinds in itertools.product(KINDS, repeat=k):
            yield dict(mode='history', kinds=list(kinds), debug=0, where='main')
    for debug, where in ((1, 'main'), (0, 'worker'), (1, 'worker')):
        for k in range(1, kside + 1):
            for kinds in itertools.product(KINDS, repeat=k):
                yield dict(mode='history', kinds=list(kinds), debug=debug, where=where)
    for n in ([200] if tier == 'quick' else [200, 2000]):
        for kind in KINDS + ['mix']:
            for where in ('main', 'worker'):
                yield dict(mode='retain', kind=kind, n=n, where=where)
    # repeated requests: the whole history carries one identity
    for a in KINDS:
        for b in KINDS:
            yield dict(mode='history', kinds=[a, b], debug=0, where='main', same=1)
            yield dict(mode='history', kinds=[a, b], debug=0, where='worker', same=1)
            yield dict(mode='history', kinds=[a, b, a], debug=0, where='main', same=1)
            if tier != 'quick':
                yield dict(mode='history', kinds=[a, b, a], debug=1, where='worker', same=1)
                yield dict(mode='history', kinds=[b, a, a], debug=0, where='main', same=1)
    # retention with N identical requests (the runs above use N distinct paths)
    for n in ([200] if tier == 'quick' else [200, 2000]):
        for kind in KINDS + ['mix']:
            yield dict(mode='retain', kind=kind, n=n, where='main', paths='same')


# ---------------------------------------------------------------------------------------------
# the application under test (same factory for the history application and the fresh ones)
# ---------------------------------------------------------------------------------------------
def make_app(debug):
    import ombott
    app = ombott.Ombott({'max_body_size': 128, 'max_memfile_size': 64, 'debug': bool(debug)})
    request, response = app.request, app.response

    @app.route('/ck/:rid')
    def ck(rid):
        response.set_cookie('sid', rid, path='/')
        response.set_cookie('k' + rid, 'v' + rid)
        return 'ck:' + rid

    @app.route('/hd/:rid')
    def hd(rid):
        response.headers['X-Id'] = rid
        response.headers.append('X-Multi', rid + 'a')
        response.headers.append('X-Multi', rid + 'b')
        response.headers['X-' + rid] = 'own-name'
        response.content_type = 'text/plain; charset=latin-1'
        return 'hd:' + rid

    @app.route('/st/:rid')
    def st(rid):
        response.status = 201
        return 'st:' + rid

    @app.route('/body/:rid', method='POST')
    def body(rid):
        response.set_cookie('b', rid)
        data = request.body.read()
        return b'body:' + data

    @app.route('/form/:rid', method='POST')
    def form(rid):
        response.headers['X-Id'] = rid
        f = request.forms
        return 'form:' + repr(sorted(f.items()))

    @app.route('/crash/:rid')
    def crash(rid):
        response.set_cookie('cr', rid)
        response.headers['X-Id'] = rid
        response.status = 202
        raise ZeroDivisionError('crash ' + rid)

    @app.route('/redir/:rid')
    def redir(rid):
        response.headers['X-Lost'] = rid
        raise ombott.HTTPResponse(status=303, Location='http://localhost/ck/' + rid)

    @app.route('/rc/:rid')
    def rc(rid):
        r = ombott.HTTPResponse('rc:' + rid, status=202, X_Rc=rid)
        r.set_cookie('rc', rid, max_age=60)
        return r

    @app.route('/file/:rid')
    def file(rid):
        data = b'file-content-of-' + rid.encode()
        return ombott.HTTPResponse(io.BytesIO(data), headers={
            'Content-Type': 'application/octet-stream', 'Content-Length': str(len(data)),
            'Last-Modified': 'Mon, 01 Jan 2024 00:00:00 GMT', 'Accept-Ranges': 'bytes',
            'Content-Disposition': 'attachment; filename="%s.bin"' % rid})

    def echo(rid):
        out = ['echo:' + rid,
               'path=' + request.path,
               'query=' + repr(sorted(request.query.items())),
               'cookies=' + repr(sorted(request.cookies.items())),
               'xid=' + repr(request.headers.get('X-Id')),
               'forms=' + repr(sorted(request.forms.items())),
               'params=' + repr(sorted(request.params.items())),
               'body=' + repr(request.body.read()),
               'clen=' + repr(request.content_length),
               'url=' + request.url]
        return '\n'.join(out)
    @app.route('/item/:rid/<id>')
    def item(rid, id):
        args = request.url_args          # this request's own wildcard arguments, normalised in place
        args['id'] = int(args['id'])
        return 'item:%s:%s:%r' % (rid, id, sorted(args.items()))

    @app.route('/mut/:rid')
    def mut(rid):
        args = request.url_args
        args['rid'] = ('seen', args['rid'])
        out = 'mut:%s:%r' % (rid, sorted(args.items()))
        args['extra'] = rid
        return out

    app.route('/echo/:rid', method='GET', callback=echo)
    app.route('/echo/:rid', method='POST', callback=echo)
    return app


def make_request(kind, rid):
    """A fresh environ for one request of `kind` carrying the identity `rid` wherever it can."""
    if kind in ('nopathinfo', 'nopathinfo_head'):
        # PEP 3333 lets a server omit PATH_INFO when it is empty: the request fails before the per-thread state is re-initialised
        env = make_environ('/', 'HEAD' if kind.endswith('head') else 'GET', query='id=' + rid)
        del env['PATH_INFO']
        return env
    if kind == 'cookie':
        return make_environ('/ck/' + rid, query='id=' + rid)
    if kind == 'header':
        return make_environ('/hd/' + rid)
    if kind == 'status':
        return make_environ('/st/' + rid)
    if kind == 'notfound':
        return make_environ('/nope/' + rid, query='id=' + rid)
    if kind == 'jsonerr':
        return make_environ('/nope/' + rid, headers={'Accept': 'application/json'})
    if kind == 'notallowed':
        return make_environ('/ck/' + rid, 'PUT')
    if kind == 'badpath':
        return make_environ(b'/\xff' + rid.encode('ascii'), query='id=' + rid)
    if kind == 'badchunk':
        return make_environ('/body/' + rid, 'POST', body=b'zz\r\n' + rid.encode() + b'\r\n0\r\n\r\n', chunked=True)
    if kind == 'oversized':
        return make_environ('/body/' + rid, 'POST', body=(rid.encode() + b'-') * 100)
    if kind == 'badmultipart':
        # truncated: the part has no terminating delimiter
        body = b'--BB\r\nContent-Disposition: form-data; name="a"\r\n\r\nvalue-' + rid.encode()
        return make_environ('/form/' + rid, 'POST', body=body, content_type='multipart/form-data; boundary=BB')
    if kind == 'badvalue':
        # a text field that is not UTF-8 and carries the identity: the parser's error message quotes the bytes
        body = b'--BB\r\nContent-Disposition: form-data; name="a"\r\n\r\n\xff' + rid.encode() + b'\r\n--BB--\r\n'
        return make_environ('/form/' + rid, 'POST', body=body, content_type='multipart/form-data; boundary=BB')
    if kind == 'badchunk_json':
        return make_environ('/body/' + rid, 'POST', body=b'zz\r\n' + rid.encode() + b'\r\n0\r\n\r\n', chunked=True,
                            headers={'Accept': 'application/json'})
    if kind == 'crash':
        return make_environ('/crash/' + rid)
    if kind == 'redirect':
        return make_environ('/redir/' + rid)
    if kind == 'respcookie':
        return make_environ('/rc/' + rid)
    if kind == 'static':
        return make_environ('/file/' + rid)
    if kind == 'echo':
        return make_environ('/echo/' + rid, 'POST', query='id=%s&q=%s' % (rid, rid), body=('f=%s&id=%s' % (rid, rid)).encode(),
                            content_type='application/x-www-form-urlencoded',
                            headers={'Cookie': 'cid=%s; c%s=1' % (rid, rid), 'X-Id': rid})
    if kind == 'echo_empty':
        return make_environ('/echo/' + rid)
    if kind == 'argsint':
        number = ''.join(c for c in rid if c.isdigit()) + str(len(rid))
        return make_environ('/item/%s/%s' % (rid, number))
    if kind == 'argsmut':
        return make_environ('/mut/' + rid)
    raise ValueError(kind)


def fingerprint(res):
    """Everything the server saw, headers as a multiset."""
    return dict(status=res.status, headers=sorted((k, v) for k, v in (res.headers or [])),
                body=res.body, calls=res.calls, exc=(repr(res.exc) if res.exc else None),
                chunks_ok=res.body is not None or res.exc is not None)


def _in_thread(fn):
    """Run fn() on a new thread; -> (finished, result, exception)."""
    box = {}

    def run():
        try:
            box['r'] = fn()
        except BaseException as e:  # noqa
            box['e'] = e
    t = threading.Thread(target=run, daemon=True)
    t.start()
    t.join(JOIN_TIMEOUT)
    if t.is_alive():
        return False, None, None
    return True, box.get('r'), box.get('e')


def _forget_process_wide_error_state():
    """Harness hygiene only (keeps run_case a function of its case): earlier cases of this worker
    process must not add to what this case measures.  Nothing the contract inspects is touched."""
    try:
        import ombott
        for e in ombott.DefaultConfig.errors_map.values():
            e.__traceback__ = None
            e.__context__ = None
    except Exception:
        pass


def diff(a, b):
    return {k: dict(expected=a[k], observed=b[k]) for k in a if a[k] != b[k]}


def run_case(case):
    _forget_process_wide_error_state()
    if case['mode'] == 'retain':
        return run_retain(case)
    kinds = case['kinds']
    debug = case['debug']
    # identities of different lengths: a length that sticks from an earlier response (Content-Length) must show
    rids = ['q7rid%dz' % i + 'x' * i for i in range(len(kinds))]
    if case.get('same'):
        rids = [rids[0]] * len(kinds)    # r_k repeats the earlier requests exactly (no earlier identity to look for)
    last_kind, last_rid = kinds[-1], rids[-1]

    # 1. the history, one application, one thread
    app = make_app(debug)

    inconsistent = []
    leaks = []

    def history():
        out = None
        for kind, rid in zip(kinds, rids):
            env = make_request(kind, rid)
            out = fingerprint(serve(app, env))
            # every response must be consistent in itself: a Content-Length that stuck from an earlier response
            # (e.g. on an error object shared by all requests) does not describe this body.  (The comparison with a
            # fresh application below cannot see that: process-wide shared objects are shared by the reference too.)
            # nothing that identifies an EARLIER request may show up in this response (checked directly: a reference
            # application in the same process shares the process-wide objects and cannot reveal such a leak)
            blob = (out['body'] or b'') + repr(out['headers']).encode('utf8', 'replace') + str(out['status']).encode()
            for earlier in ([] if case.get('same') else rids[:rids.index(rid)]):
                if earlier.encode() in blob:
                    leaks.append(dict(kind=kind, rid=rid, shows=earlier, status=out['status']))
            cl = [v for k, v in out['headers'] if k.lower() == 'content-length']
            code = int(str(out['status']).split()[0]) if out['status'] else 0
            if (cl and out['body'] is not None and env['REQUEST_METHOD'] != 'HEAD' and code >= 200
                    and code not in (204, 304) and any(int(c) != len(out['body']) for c in cl if c.isdigit())):
                inconsistent.append(dict(kind=kind, rid=rid, content_length=cl, body_len=len(out['body']), status=out['status']))
        return out
    if case['where'] == 'main':
        got = history()
    else:
        done, got, exc = _in_thread(history)
        if not done:
            return fail('deadlock/timeout', where='history thread')
        if exc is not None:
            raise exc

    if inconsistent:
        return fail('H2.content_length_of_another_response', responses=inconsistent)
    if leaks:
        return fail('H3.earlier_request_shows_in_response', leaks=leaks[:4])

    # 2. the same request alone on a fresh application (building thread)
    ref_main = fingerprint(serve(make_app(debug), make_request(last_kind, last_rid)))
    if got != ref_main:
        d = diff(ref_main, got)
        return fail('H1.response_depends_on_history', last=last_kind, rid=last_rid, differs=sorted(d), diff=d,
                    earlier_rids=rids[:-1])

    # 3. the same request alone on a fresh application, first request of a new worker thread
    fresh = make_app(debug)
    done, ref_worker, exc = _in_thread(lambda: fingerprint(serve(fresh, make_request(last_kind, last_rid))))
    if not done:
        return fail('deadlock/timeout', where='reference thread')
    if exc is not None:
        raise exc
    if ref_worker != ref_main:
        d = diff(ref_main, ref_worker)
        return fail('H0.response_depends_on_thread', last=last_kind, rid=last_rid, differs=sorted(d), diff=d)
    return None


class Marker:
    __slots__ = ('__weakref__',)


_CONTAINERS = (dict, list, tuple, set, frozenset)


def reachable_identities(pattern):
    """Distinct request numbers whose identity token occurs in a str/bytes the collector can reach: referents of
    every tracked object, descending through containers the collector does not track itself."""
    import re
    rx_s = re.compile(pattern)
    rx_b = re.compile(pattern.encode())
    found = set()
    seen = set()
    objs = gc.get_objects()
    stack = []
    for o in objs:
        try:
            refs = gc.get_referents(o)
        except Exception:
            continue
        stack.extend(refs)
        while stack:
            r = stack.pop()
            t = type(r)
            if t is str:
                if len(r) < 4096:
                    for m in rx_s.finditer(r):
                        found.add(int(m.group(1)))
            elif t is bytes:
                if len(r) < 4096:
                    for m in rx_b.finditer(r):
                        found.add(int(m.group(1)))
            elif t in _CONTAINERS and not gc.is_tracked(r) and id(r) not in seen:
                seen.add(id(r))
                stack.extend(gc.get_referents(r))
    del objs, stack
    return found


def run_retain(case):
    import zlib
    n = case['n']
    kinds = KINDS if case['kind'] == 'mix' else [case['kind']]
    same = case.get('paths') == 'same'
    # identity token of this case's requests: 'r<case digits>q<request number>z'
    tag = 'r%dq' % (zlib.crc32(repr(sorted(case.items())).encode()) % 100000)
    app = make_app(0)
    markers, inputs = [], []

    def batch(start):
        for i in range(start, start + n):
            env = make_request(kinds[i % len(kinds)], tag + ('0z' if same else '%dz' % i))
            m = Marker()
            env['x.marker'] = m
            markers.append(weakref.ref(m))
            inputs.append(weakref.ref(env['wsgi.input']))
            del m
            res = serve(app, env)
            del res, env

    def alive():
        gc.collect()
        ids = () if same else reachable_identities(tag + r'(\d+)z')
        return (sum(1 for w in markers if w() is not None), sum(1 for w in inputs if w() is not None), len(ids))

    def both():
        batch(0)
        a1 = alive()
        batch(n)
        a2 = alive()
        a3 = None
        if a2[2] > a1[2] + KEEP:     # still growing?  a bounded cache between N and 2N entries stops here
            batch(2 * n)
            batch(3 * n)
            a3 = alive()
        return a1, a2, a3
    if case['where'] == 'main':
        a1, a2, a3 = both()
    else:
        done, r, exc = _in_thread(both)
        if not done:
            return fail('deadlock/timeout', where='retention thread')
        if exc is not None:
            raise exc
        a1, a2, a3 = r
    for served, (nm, ni, nid) in ((n, a1), (2 * n, a2)):
        if nm > KEEP or ni > KEEP:
            return fail('R.retained_grows_with_N', served=served, markers_alive=nm, inputs_alive=ni, bound=KEEP,
                        after_n=list(a1), after_2n=list(a2))
    if a3 is not None and a3[2] > a2[2] + KEEP:
        return fail('R2.request_data_retained_grows_with_N', served=4 * n, identities_reachable=a3[2],
                    after_n=list(a1), after_2n=list(a2), after_4n=list(a3), slack=KEEP)
    return None


# ---------------------------------------------------------------------------------------------
# recognisers of defect classes already known on the unchanged tree (labels only)
# ---------------------------------------------------------------------------------------------
def _d8(case, failure):
    # the request whose answer is wrong is the undecodable-path request itself, and the symptom is one of:
    # (H1) its 400 differs from the fresh 400 (previous request's headers/cookies/URL in it),
    # (H0) on a thread that never served it is not the 400 of the building thread.
    return (case.get('mode') == 'history' and case['kinds'][-1] == 'badpath'
            and failure.get('clause') in ('H1.response_depends_on_history', 'H0.response_depends_on_thread'))


def _d9(case, failure):
    # linear retention only for the kinds answered through the shared errors_map objects
    if case.get('mode') != 'retain' or failure.get('clause') != 'R.retained_grows_with_N':
        return False
    if case['kind'] in ('badchunk', 'oversized'):
        return True
    if case['kind'] == 'mix':   # the mix contains 2 such kinds out of len(KINDS): growth is at most that share
        served = failure.get('served', 0)
        return failure.get('markers_alive', 0) <= 2 * served // len(KINDS) + KEEP
    return False


FINDINGS = {
    'D8-undecodable-path-skips-init': _d8,
    'D9-shared-error-retention': _d9,
}
