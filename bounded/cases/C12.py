"""C12 bounded stand-in / replay harness: malformed request bodies yield client errors, never server faults.

Contract = postcondition of `Ombott.__call__` for a handler that reads `request.forms / files / POST / json / body`
(the real application, reader, multipart parser, JSON decoder), for ANY bytes as the body under either framing:

  E1.escaped     no exception leaves the application callable.
  E1.status      the response status is 200 (the handler returns 'ok' after reading) or a 4xx; never 5xx / anything else.
  E1.access      (touch mode 'catch': the handler wraps each access in try/except) whatever an access raises is an
                 HTTP response object with a 4xx status -- the same demand seen from inside the handler.
  E3.complete    every delivered field (each text value of forms/POST, the content of each upload of files/POST, also
                 the partial collections that stay readable after a refused access) is the COMPLETE data of a part that
                 was terminated by a delimiter in the body that was sent: oracle `multipart_spec.is_complete_part_data`
                 (blank line directly in front, delimiter CRLF--boundary directly behind, no delimiter inside).
                 The "body that was sent" is the de-chunked payload (reference decoder /verif/spec/chunked_spec.py; no
                 oracle and no E3 check when the chunked framing itself is illegal: that is C05's subject), or the first
                 Content-Length bytes of the stream.
  (hang)         the runner's per-case alarm reports a case that does not finish (clause 'hang').  Inputs aimed at it:
                 part header blocks in which an option value opens a double quote and never closes it, followed by 8..200
                 further characters (section 1b of the generator, generated last) -- the time to answer must not explode with that length.

Nothing else is demanded (which malformed bodies are accepted and what they mean is left open by the statement).

The statement holds for the application however it was configured.  Besides `Ombott(config)` (case key `setup` absent) the
same clauses are checked on applications configured AFTER construction (`setup` = one of SETUP_MODES): `Ombott()` followed by
`app.setup(cfg)` with cfg = {max_memfile_size[, max_body_size]} / {} / no argument / only application-level keys
{catchall: True, debug: False}, and `Ombott(other cfg)` re-configured by `app.setup(cfg)`; no cfg names `errors_map`.
"""
import hashlib
import itertools
import random

from bounded.common import FragStream, make_environ, serve, chunk_encode, fail
from spec import multipart_spec as ms
from spec import chunked_spec as cs

BOUND = ('multipart: 4 base forms (boundaries BND, X, --a-; text+file parts, UTF-8, delimiter look-alikes) as token lists '
         '[delimiter, CRLF, header block, blank line, data, ..., close-delimiter, CRLF]: every deletion / duplication / adjacent swap '
         'of a token, every token replaced by each of its malformed variants (wrong/short/long boundary, LF or CR line ends, '
         'padding, close-delimiter variants, 62 header-block variants: no name, no colon, empty value, non-UTF-8, lower case, '
         'unicode line separators, unbalanced quotes ...); unterminated quotes: every header block of base forms B1 and B2 replaced by '
         'a block with an option value that opens a quote and never closes it -- in name= / filename= / another option of '
         'Content-Disposition / a Content-Type parameter / an extra header line before Content-Disposition, alone or followed by '
         'further options or a next header line -- followed by 8,12,16,20,24,28,32,40,64,100,200 characters of 4 fillers (a..., '
         'separators "; = space", UTF-8, backslashes) x 2 framings/access modes (rotated), max_memfile_size 102400 / 4096; '
         'truncation at EVERY offset (honest Content-Length, lying Content-Length, '
         'chunked payload, cut chunked wire), EVERY single-byte deletion, EVERY single-byte substitution by 10 bytes; all header '
         'blocks of <=4 (quick) / <=5 (thorough) tokens over an 11-token alphabet; all byte strings of length <=5 (quick) / <=7 '
         '(thorough) over {CR,LF,-,X,:,a} behind 5 well-formed prefixes; JSON: 81 listed bodies (invalid, non-object, non-UTF-8, '
         'UTF-16, deep nesting, huge numbers, oversized) and all strings <=3 (quick) / <=5 (thorough) over a 10-letter JSON alphabet; '
         'urlencoded: 31 listed + all strings <=4/<=6 over {a,=,&,%,+,0xff}; every listed body also under the other content types '
         '(32 spellings: multipart with/without/with another/quoted boundary, urlencoded, json, text/plain, none); garbage chunked wires; seeded random '
         'bytes and random multi-mutations; x framing {Content-Length full/1-byte/7-byte reads, chunked pieces all/1/5} x '
         'max_memfile_size {102400, 64, 16} (+max_body_size 40) x handler access {forms, files, POST, json, body, all, catch}. '
         'Application configured by app.setup(...) after construction (never an errors_map): modes {Ombott() + setup({max_memfile_size'
         '[, max_body_size]}), Ombott() + setup({}), Ombott() + setup(), Ombott() + setup({catchall, debug}), Ombott({max_memfile_size 7, '
         'max_body_size 3}) re-configured by setup({max_memfile_size[, max_body_size]})} x a listed selection of the bodies above: '
         'the 4 intact base forms, every token deletion and every header-block variant of the first part of each base form, truncation at '
         'every 5th offset (honest length, chunked), the 81 JSON bodies read as json and as forms, the 31 urlencoded bodies, the 12 '
         'garbage chunked wires, bodies over max_memfile_size 16/64, bodies over max_body_size {0,1,40}, lying Content-Length.')
NONTRIVIAL_RULE = 'distinct (body, content type, framing, declared length, thresholds, access mode, configuration mode); non-trivial = non-empty body'

CRLF = b'\r\n'
DEFAULT_MEM = 100 * 1024
TOUCHES = ['forms', 'files', 'post', 'json', 'body', 'all', 'catch']
FRAMINGS = [('cl', 0, 0), ('ch', 0, 0), ('cl', 0, 1), ('ch', 5, 0), ('cl', 0, 7), ('ch', 1, 2)]   # (kind, pieces, tail)


def exhaustive(tier):
    return False


def nontrivial(case):
    return len(case['body']) > 0


# ------------------------------------------------------------------------------------------------------------------
# generation

def _cd(s):
    return b'Content-Disposition: form-data; ' + s


BASES = {
    'B1': ('BND', [(_cd(b'name="a"'), b'1'),
                   (_cd(b'name="f"; filename="x.txt"') + CRLF + b'Content-Type: text/plain', b'da\r\n--BNta\r\n'),
                   (_cd(b'name="b"'), '\u00fc'.encode())]),
    'B2': ('X', [(_cd(b'name="a"'), b'v')]),
    'B3': ('X', [(_cd(b'name="f"; filename="n"'), b'\r\n'), (_cd(b'name="f"; filename="m"'), b''), (_cd(b'name="t"'), b'--X')]),
    'B4': ('--a-', [(_cd(b'name="a;b"'), b'x\r\n----a'), (_cd(b'name="g"; filename="c:\\q"'), b'\x00\xff' * 40)]),
}


def tokens(parts, bd):
    bd = bd.encode()
    toks = []
    for i, (h, d) in enumerate(parts):
        toks += [['delim', (b'' if i == 0 else CRLF) + b'--' + bd], ['crlf', CRLF], ['hdr', h], ['sep', CRLF + CRLF], ['data', d]]
    toks += [['close', (CRLF if parts else b'') + b'--' + bd + b'--'], ['final', CRLF]]
    return toks


def join(toks):
    return b''.join(t[1] for t in toks)


HDR_VARIANTS = [
    b'', b' ', b':', b': x', b'x', b'X-Empty:', b'X-Empty: ', b'Content-Disposition', b'Content-Disposition:',
    b'Content-Disposition: ', b'Content-Disposition: ;', b'Content-Disposition: ;;;', b'Content-Disposition: form-data',
    b'Content-Disposition: form-data;', b'Content-Disposition: form-data; name', b'Content-Disposition: form-data; name=',
    b'Content-Disposition: form-data; name=""', b'Content-Disposition: form-data; name=a', b'Content-Disposition: form-data; name="a',
    b'Content-Disposition: form-data; name=a"', b'Content-Disposition: form-data; name="a"b"', b'Content-Disposition: form-data; =x',
    b'Content-Disposition: form-data; name="a"; name="b"', b'Content-Disposition: form-data; NAME="a"',
    b'Content-Disposition form-data; name="a"', b'Content-Disposition; form-data; name="a"',
    b'content-disposition: form-data; name="a"', b'CONTENT-DISPOSITION: form-data; name="a"',
    b'Content-Disposition : form-data; name="a"', b' Content-Disposition: form-data; name="a"',
    b'Content-Disposition: form-data; name="\xff"', b'Content-Disposition: form-data; name="\xe2\x82"',
    b'\xff: x', b'\xffContent-Disposition: form-data; name="a"', b'Content-Disposition: form-data; name="a"; filename="\xff\xfe"',
    b'X-Empty:\r\nContent-Disposition: form-data; name="a"', b'Content-Disposition: form-data; name="a"\r\nX-Empty:',
    b'Content-Disposition: form-data; name="a"\r\nnocolon', b'nocolon\r\nContent-Disposition: form-data; name="a"',
    b'Content-Disposition: form-data; name="a"\r\n continued', b'Content-Disposition: form-data;\r\n name="a"',
    b'Content-Disposition: form-data; name="a"\nContent-Type: text/plain', b'Content-Disposition: form-data; name="a"\rContent-Type: text/plain',
    b'Content-Disposition: form-data; name="a\x0bb"', b'Content-Disposition: form-data; name="a\x0cb"',
    b'Content-Disposition: form-data; name="a\x1cb"', b'Content-Disposition: form-data; name="a\xc2\x85b"',
    b'Content-Disposition: form-data; name="a\xe2\x80\xa8b"', b'Content-Disposition: form-data; name="a\x00b"',
    b'Content-Disposition: form-data; name="a"\r\nContent-Disposition: form-data', b'Content-Disposition: form-data\r\nContent-Disposition: form-data; name="a"',
    b'Content-Disposition: form-data; name="a"; filename', b'Content-Disposition: form-data; name="a"; filename=',
    b'Content-Disposition: form-data; name="a"; filename=""', b'Content-Disposition: form-data; filename="x"',
    b'Content-Disposition: form-data; name="a"; filename="x"\r\nContent-Type:', b'Content-Disposition: form-data; name="a"; filename="x"\r\nContent-Type',
    b'Content-Disposition: form-data; name="a"; filename="x"\r\nContent-Type: ;', b'Content-Disposition: form-data; name="a"; filename="x"\r\nContent-Length: abc',
    b'Content-Type: text/plain', b'Content-Disposition: form-data; name="a"' + b'; p=' + b'q' * 300,
    b'X-Long: ' + b'h' * 2000 + b'\r\nContent-Disposition: form-data; name="a"',
]


def _variants(kind, tok, bd):
    b = bd.encode()
    lead = CRLF if tok.startswith(CRLF) else b''
    if kind == 'delim':
        alt = b[:-1] + (b'Y' if b[-1:] != b'Y' else b'Z')
        return [lead + b'--' + alt, b'--' + b if lead else CRLF + b'--' + b, b'\n--' + b, b'\r--' + b, lead + b'-' + b, lead + b'---' + b,
                lead + b'--' + b[:-1], lead + b'--' + b + b'x', lead + b'--' + b + b'--', lead + b'--' + b + b'-', lead + b'--' + b + b'  ',
                lead + b'--' + b + b'\t', lead + b'--' + b.lower() if b.lower() != b else lead + b'--' + b.upper(), lead + b' --' + b,
                lead + b'--' + b + CRLF + lead + b'--' + b]
    if kind == 'crlf':
        return [b'\n', b'\r', b'\r\r\n', b' \r\n', b'\r\n ', b'\n\r', b'-', b'--', b'-\r\n', b'x']
    if kind == 'sep':
        return [CRLF, b'\n\n', b'\r\n\r', b'\r\n\n', b'\r\r\n\r\n', b'\r\n\r\n\r\n', b'\n\r\n', b'\r\r', b'\r', b'\r\n\r\r\n', b'\r\n \r\n']
    if kind == 'data':
        return [tok + b'\xff\xfe', b'\xc3', tok + b'\r', tok + b'\r\n', tok + b'\r\n--', tok + b'\r\n--' + b[:-1], b'x' * 70, b'y' * 3000,
                tok + b'\n--' + b + b'--\r\n']
    if kind == 'close':
        return [lead + b'--' + b + b'-', lead + b'--' + b + b'-x', lead + b'--' + b + b'--x', lead + b'--' + b + b'-\r\n', lead + b'--' + b + b'\r\n--',
                lead + b'--' + b, lead + b'--' + b + CRLF, lead + b'--' + b[:-1] + b'--', b'\n--' + b + b'--', lead + b'--' + b + b' --',
                lead + b'--' + b + b'--' + lead + b'--' + b + b'--']
    if kind == 'final':
        return [b'x', b'\r', b'\n', CRLF + b'epilogue', CRLF + b'--' + b + CRLF + _cd(b'name="late"') + CRLF * 2 + b'z' + CRLF + b'--' + b + b'--',
                b'--', b'\r\n\r\n']
    return []


SUBST = [b'\r', b'\n', b'-', b'"', b':', b';', b'=', b' ', b'\xff', b'\x00']

JSON_BODIES = [
    b'{}', b'{"a": 1}', b'{"a": "x", "b": [1, 2]}', b'{"a": {"b": null}}', b'{"\xc3\xa9": "\xe2\x82\xac"}', b'{"a": 1, "a": 2}',
    b'[]', b'[1,2]', b'[[1,2]]', b'[["a","b"]]', b'["ab"]', b'[[1]]', b'[1]', b'[null]', b'"str"', b'"ab"', b'""', b'5', b'0', b'-1', b'1.5', b'true',
    b'false', b'null', b' ', b'\n', b'', b'{bad', b'{', b'}', b'[', b']', b'{"a":', b'{"a"}', b'{"a":1,}', b'[1,', b'[1 2]', b'"abc', b'\'a\'', b'{a:1}',
    b'nul', b'NaN', b'Infinity', b'-Infinity', b'-', b'+1', b'01', b'1e999999', b'1' * 5000, b'{"a": ' + b'9' * 5000 + b'}', b'{"a":1}{"b":2}',
    b'{"a":1} x', b'x{"a":1}', b'"\xff"', b'{"\xff": 1}', b'\xff', b'\xc3', b'\xff\xfe{\x00}\x00', b'\xfe\xff\x00{\x00}', b'{\x00}\x00', b'\x00{\x00}',
    b'\xef\xbb\xbf{}', b'\xef\xbb\xbf', b'\xff\xfe', b'\xff\xfe\x00', b'"\\ud800"', b'{"\\ud800": "\\udfff"}', b'"\\u0000"', b'"\\x"', b'"\\',
    b'"a\nb"', b'"\x00"', b'[' * 100, b'[' * 1500, b'[' * 100000, b'[' * 1500 + b']' * 1500, b'{"a":' * 1500, b'{"a":' * 1500 + b'1' + b'}' * 1500,
    b'[' * 400 + b']' * 400, b'{"k": "' + b'v' * 200000 + b'"}', b' ' * 150000 + b'{}',
]
JSON_CTYPES = ['application/json', 'application/json; charset=utf-8', 'Application/JSON', 'application/json-patch+json', 'application/jsonx']

URL_BODIES = [
    b'', b'a=1', b'a=1&a=2&b=%zz&c', b'%', b'%%', b'%f', b'%ff', b'%FF%FE=%', b'=', b'&', b'&&==&', b'a', b'a=', b'=a', b'a=b=c', b'a;b=1', b'+', b'a+b=c+d',
    b'\xff\xfe=\xff', b'a=\x00', b'\xc3\xa9=\xe2\x82\xac', b'%C3%A9=%E2%82', b'a=%u1234', b'a[]=1&a[]=2', b'a=' + b'x' * 200000, b'a=1&' * 30000,
    b'%' * 5000, b'&' * 5000, b'\r\n', b'a=1\r\n', b'--X\r\n',
]

OTHER_CTYPES = [None, '', 'text/plain', 'application/x-www-form-urlencoded', 'application/x-www-form-urlencoded; charset=utf-8', 'application/json',
                'multipart/form-data', 'multipart/form-data;', 'multipart/form-data; boundary', 'multipart/form-data; boundary=',
                'multipart/form-data; boundary=;', 'multipart/form-data; boundary="BND"', 'multipart/form-data; boundary=BND; charset=utf-8',
                'multipart/form-data; charset=utf-8; boundary=BND', 'multipart/form-data;boundary=BND', 'multipart/form-data; boundary=BND ',
                'multipart/form-data; boundary= BND', 'multipart/mixed; boundary=BND', 'multipart/; boundary=BND', 'multipart/form-data; boundary=X',
                'multipart/form-data; Boundary=BND', 'MULTIPART/FORM-DATA; boundary=BND', 'multipart/form-data; boundary=BN', 'multipart/form-data; boundary=-',
                'multipart/form-data; boundary=' + 'b' * 300, 'multipart/form-data; boundary=\u00e9', 'multipart', 'multipart/', ';', 'application/json;',
                ' application/json', 'application/json ; x']


UNTERMINATED_LENGTHS = [8, 12, 16, 20, 24, 28, 32, 40, 64, 100, 200]
UNTERMINATED_FILLERS = ['a', 'ab;c= d', '\u00e9x', 'a\\b']


def unterminated_quote_headers():
    """header blocks in which one option value opens a double quote that is never closed, followed by n more characters
    (none of them a double quote): [(label, header block bytes)]"""
    out = []
    for n in UNTERMINATED_LENGTHS:
        for fi, filler in enumerate(UNTERMINATED_FILLERS):
            run = (filler * n)[:n].encode('utf8')
            assert b'"' not in run and b'\r' not in run and b'\n' not in run
            for label, h in (
                    ('name', _cd(b'name="' + run)),
                    ('filename', _cd(b'name="a"; filename="' + run)),
                    ('other-option', _cd(b'name="a"; other="' + run)),
                    ('name-then-options', _cd(b'name="' + run + b'; filename=x; p=q')),
                    ('ctype-param', _cd(b'name="a"; filename="x"') + CRLF + b'Content-Type: text/plain; charset="' + run),
                    ('extra-header-first', b'X-Other: v; p="' + run + CRLF + _cd(b'name="a"')),
                    ('unquoted-name-then-quote', _cd(b'name=a; filename="' + run) + CRLF + b'Content-Type: text/plain')):
                out.append((f'{label}:{n}:{fi}', h))
    return out


def _mp_ctype(bd):
    return 'multipart/form-data; boundary=' + bd


def _plain_boundary(ctype):
    """the boundary when the content type is the plain spelling `multipart/<x>; boundary=<token>` (else None: no E3 oracle)."""
    import re
    m = re.match(r'^multipart/[a-z-]+; boundary=([A-Za-z0-9\'+_.-]+)$', ctype or '')
    return m.group(1) if m else None


def _case(body, ctype, framing, mem, touch, desc, cl='auto', raw_wire=False, max_body=None):
    kind, pieces, tail = framing
    if len(body) > 5000:        # keep the number of read calls of one case bounded
        pieces, tail = (0 if pieces < 1000 else pieces), 0
    return dict(body=bytes(body), ctype=ctype, framing=kind, pieces=pieces, tail=tail, cl=cl, raw_wire=bool(raw_wire), mem=mem,
                max_body=max_body, touch=touch, desc=desc)


def _gen(tier, seed):
    quick = tier == 'quick'
    nf, nt = len(FRAMINGS), len(TOUCHES)
    mp_touch = ['forms', 'files', 'post', 'all', 'catch', 'forms', 'catch', 'body', 'json']
    mems = [DEFAULT_MEM, 64, 16]
    i = 0

    def spread(body, ctype, desc, n, touches=mp_touch, mems=mems):
        """n configurations for one body, rotating framing / threshold / access mode deterministically."""
        nonlocal i
        i += 1
        for k in range(n):
            yield _case(body, ctype, FRAMINGS[(i * 5 + k) % nf], mems[(i + k * 2) % len(mems)] if k else mems[0],
                        touches[(i + 3 * k) % len(touches)], desc)

    # ---- 0. well-formed forms in which ONE name is used several times as a text field and several times as an upload
    #         (every order, 4 and 5 parts): well-formed input must of course not be a server fault either
    for n in (4, 5):
        for bits in itertools.product((0, 1), repeat=n):
            parts = []
            for k, b in enumerate(bits):
                if b:
                    parts.append((b'Content-Disposition: form-data; name="a"; filename="f%d.txt"' % k, b'data%d' % k))
                else:
                    parts.append((b'Content-Disposition: form-data; name="a"', b't%d' % k))
            yield from spread(ms.build(parts, 'BND', final_crlf=True), _mp_ctype('BND'), 'same-name-text-and-file-%s' % ''.join(map(str, bits)), 2,
                              touches=['all', 'post', 'forms', 'files'])
    # ---- 1. grammar mutations of well-formed multipart bodies
    for bname, (bd, parts) in BASES.items():
        toks = tokens(parts, bd)
        ct = _mp_ctype(bd)
        good = join(toks)
        assert good == ms.build(parts, bd, final_crlf=True)
        for fr in FRAMINGS:
            for mem in (DEFAULT_MEM, 700, 64):
                for touch in TOUCHES:
                    yield _case(good, ct, fr, mem, touch, bname + ':intact')
        n_cfg = 3 if quick else 6
        for k, (kind, tok) in enumerate(toks):
            yield from spread(join(toks[:k] + toks[k + 1:]), ct, f'{bname}:del-token{k}:{kind}', n_cfg)
            yield from spread(join(toks[:k] + [toks[k]] + toks[k:]), ct, f'{bname}:dup-token{k}:{kind}', n_cfg)
            if k + 1 < len(toks):
                yield from spread(join(toks[:k] + [toks[k + 1], toks[k]] + toks[k + 2:]), ct, f'{bname}:swap-token{k}:{kind}', n_cfg)
            alts = HDR_VARIANTS if kind == 'hdr' else _variants(kind, tok, bd)
            for a, alt in enumerate(alts):
                yield from spread(join(toks[:k] + [[kind, alt]] + toks[k + 1:]), ct, f'{bname}:alt-token{k}:{kind}:{a}', n_cfg)
        # truncation at every offset
        for cut in range(len(good)):
            pre = good[:cut]
            i += 1
            mem = mems[i % 3] if cut % 2 else DEFAULT_MEM
            t = mp_touch[i % len(mp_touch)]
            yield _case(pre, ct, FRAMINGS[(i % 3) * 2], mem, t, f'{bname}:cut{cut}:honest-cl')
            yield _case(pre, ct, FRAMINGS[(i % 3) * 2], mem, t, f'{bname}:cut{cut}:lying-cl', cl=len(good))
            yield _case(pre, ct, FRAMINGS[(i % 3) * 2 + 1], mem, t, f'{bname}:cut{cut}:chunked')
        wire = chunk_encode([good[k:k + 50] for k in range(0, len(good), 50)])
        for cut in range(len(wire)):
            i += 1
            yield _case(wire[:cut], ct, ('ch', 0, i % 3), mems[i % 2], mp_touch[i % 5], f'{bname}:wirecut{cut}', raw_wire=True)
        # single-byte deletion / substitution
        for pos in range(len(good)):
            yield from spread(good[:pos] + good[pos + 1:], ct, f'{bname}:delbyte{pos}', 1 if quick else 2)
            for sub in SUBST:
                if good[pos:pos + 1] != sub:
                    yield from spread(good[:pos] + sub + good[pos + 1:], ct, f'{bname}:sub{pos}:{sub!r}', 1 if quick else 2)
            if not quick:
                for ins in (b'\r', b'\n', b'-', b'\r\n'):
                    yield from spread(good[:pos] + ins + good[pos:], ct, f'{bname}:ins{pos}:{ins!r}', 1)

    # ---- 2. small scope: header blocks over a token alphabet, inside an otherwise well-formed body
    halpha = [b':', b';', b'=', b'"', b' ', b'\r\n', b'\n', b'a', b'\xff', b'name', b'Content-Disposition']
    for n in range(0, (4 if quick else 5) + 1):
        for t in itertools.product(halpha, repeat=n):
            h = b''.join(t)
            body = b'--X\r\n' + h + b'\r\n\r\nv\r\n--X\r\n' + _cd(b'name="z"') + b'\r\n\r\nw\r\n--X--\r\n'
            yield from spread(body, _mp_ctype('X'), 'hdr-small-scope', 1 if quick else 2, touches=['forms', 'catch', 'post'])
    # ---- 3. small scope: byte strings behind well-formed prefixes
    prefixes = [b'', b'--X', b'--X\r\n', b'--X\r\n' + _cd(b'name="a"') + b'\r\n\r\n', b'--X\r\n' + _cd(b'name="a"') + b'\r\n\r\nv\r\n--X']
    for n in range(0, (5 if quick else 7) + 1):
        for t in itertools.product(b'\r\n-X:a', repeat=n):
            s = bytes(t)
            for p in prefixes:
                yield from spread(p + s, _mp_ctype('X'), 'bytes-small-scope', 1, touches=['forms', 'catch', 'files', 'all'], mems=[DEFAULT_MEM, 64])
    # ---- 4. JSON
    for body in JSON_BODIES:
        for ct in JSON_CTYPES:
            for touch in ('json', 'forms', 'post', 'all', 'catch', 'files', 'body'):
                i += 1
                yield _case(body, ct, FRAMINGS[i % nf], DEFAULT_MEM, touch, 'json-list')
                if len(body) < 3000 and ct == JSON_CTYPES[i % 2]:
                    yield _case(body, ct, FRAMINGS[(i + 1) % nf], 64 if i % 2 else 2048, touch, 'json-list-small-mem')
    jalpha = [b'{', b'}', b'[', b']', b'"', b':', b',', b'1', b'a', b'\xff']
    for n in range(0, (3 if quick else 5) + 1):
        for t in itertools.product(jalpha, repeat=n):
            s = b''.join(t)
            i += 1
            yield _case(s, 'application/json', FRAMINGS[i % 2], DEFAULT_MEM, 'json', 'json-small-scope')
            yield _case(s, 'application/json', FRAMINGS[i % 2], DEFAULT_MEM, 'forms', 'json-small-scope')
    # ---- 5. urlencoded
    for body in URL_BODIES:
        for ct in ('application/x-www-form-urlencoded', None, 'text/plain', 'application/x-www-form-urlencoded; charset=utf-8'):
            for touch in ('forms', 'post', 'all', 'catch', 'files'):
                i += 1
                yield _case(body, ct, FRAMINGS[i % nf], DEFAULT_MEM if i % 3 else 64, touch, 'url-list')
    for n in range(0, (4 if quick else 6) + 1):
        for t in itertools.product(b'a=&%+\xff', repeat=n):
            i += 1
            yield _case(bytes(t), 'application/x-www-form-urlencoded', FRAMINGS[i % 2], DEFAULT_MEM, 'forms', 'url-small-scope')
    # ---- 6. every listed body under the other content types
    b1 = ms.build(BASES['B1'][1], 'BND', final_crlf=True)
    cross = [b1, b1[:60], b1[:-9], b'garbage', b'\r\n', b'--', b'--BND', b'--BND--', b'--BND--\r\n', b'\r\n--BND--\r\n', b'{"a": 1}', b'[1,2]', b'a=1&b=2',
             b'\xff' * 10, b'', b'--"BND"\r\n' + _cd(b'name="a"') + b'\r\n\r\nv\r\n--"BND"--\r\n', b'x' * 200000]
    for body in cross:
        for ct in OTHER_CTYPES:
            for touch in TOUCHES:
                i += 1
                yield _case(body, ct, FRAMINGS[i % nf], DEFAULT_MEM if i % 4 else 64, touch, 'cross')
    # ---- 7. declared lengths and body limits
    for body in (b1, b'a=1&b=2', b'{"a": 1}', b''):
        for ct in (_mp_ctype('BND'), 'application/x-www-form-urlencoded', 'application/json'):
            for cl in (None, 0, 1, len(body) // 2, len(body) + 5, 10 ** 30):
                for touch in ('forms', 'json', 'body', 'catch'):
                    i += 1
                    yield _case(body, ct, ('cl', 0, i % 2), DEFAULT_MEM, touch, 'declared-length', cl=cl)
            for mb in (0, 1, 40, len(body), len(body) - 1):
                for fr in FRAMINGS[:4]:
                    i += 1
                    yield _case(body, ct, fr, DEFAULT_MEM if i % 2 else 32, TOUCHES[i % nt], 'max-body', max_body=mb)
    # ---- 8. garbage chunked wires (small scope + listed)
    for n in range(0, (4 if quick else 5) + 1):
        for t in itertools.product(b'01a\r\n;', repeat=n):
            i += 1
            ct = [_mp_ctype('X'), 'application/json', 'application/x-www-form-urlencoded'][i % 3]
            yield _case(bytes(t), ct, ('ch', 0, i % 2), DEFAULT_MEM if i % 2 else 16, ['forms', 'json', 'body', 'catch'][i % 4], 'wire-small-scope',
                        raw_wire=True)
    for w in (b'5\r\nab', b'5\r\nabcde', b'5\r\nabcdeXX0\r\n\r\n', b'zz\r\n', b'-1\r\nab\r\n0\r\n\r\n', b'1' * 100 + b'\r\n', b'FFFFFFFFFFFFFFFFFFFF\r\nab\r\n0\r\n\r\n',
              b'3;' + b'x' * 200000 + b'\r\nabc\r\n0\r\n\r\n', b'\r\n', b'0\r\n', b'0', b''):
        for ct in (_mp_ctype('X'), 'application/json', None):
            for touch in ('forms', 'json', 'body', 'catch'):
                for mem in (DEFAULT_MEM, 16):
                    yield _case(w, ct, ('ch', 0, 0), mem, touch, 'wire-list', raw_wire=True)
    # ---- 9. seeded random: raw bytes, and several mutations at once on the base bodies
    rnd = random.Random(seed)
    goods = [(bd, ms.build(parts, bd, final_crlf=True)) for bd, parts in BASES.values()]
    soup = [b'\r\n', b'--', b'--X', b'--BND', b'\r\n--X', b'\r\n--BND--', b'Content-Disposition: form-data; name="a"', b'; filename="f"', b':', b'\r', b'\n',
            b'\r\n\r\n', b'"', b'\xff', b'x', b'-']
    for _ in range(3000 if quick else 150000):
        r = rnd.random()
        if r < .25:
            body = bytes(rnd.randrange(256) for _ in range(rnd.choice([1, 5, 40, 300])))
            bd = rnd.choice(['X', 'BND'])
            desc = 'rnd-bytes'
        elif r < .5:
            body = b''.join(rnd.choice(soup) for _ in range(rnd.randrange(1, 30)))
            bd = rnd.choice(['X', 'BND'])
            desc = 'rnd-soup'
        else:
            bd, body = rnd.choice(goods)
            for _m in range(rnd.randrange(2, 5)):
                p = rnd.randrange(len(body) + 1)
                op = rnd.randrange(4)
                if op == 0:
                    body = body[:p] + body[p + rnd.randrange(1, 8):]
                elif op == 1:
                    body = body[:p] + rnd.choice(soup) + body[p:]
                elif op == 2:
                    body = body[:p] + bytes([rnd.randrange(256)]) + body[p + 1:]
                else:
                    q = rnd.randrange(len(body) + 1)
                    body = body[:p] + body[min(p, q):max(p, q)] + body[p:]
            desc = 'rnd-multi-mutation'
        ct = rnd.choice([_mp_ctype(bd)] * 6 + ['application/json', 'application/x-www-form-urlencoded', None])
        fr = (rnd.choice(['cl', 'ch']), rnd.choice([0, 1, 3, 16, 100]), rnd.choice([0, 0, 1, 2, 9]))
        yield _case(body, ct, fr, rnd.choice([DEFAULT_MEM, DEFAULT_MEM, 256, 64, 16, 8]), rnd.choice(TOUCHES), desc,
                    cl=rnd.choice(['auto'] * 5 + [len(body) + 3, max(0, len(body) - 3)]), raw_wire=rnd.random() < .1,
                    max_body=rnd.choice([None] * 8 + [10, 100]))
    # ---- 1b (generated last, so that the cases above keep their rotation of framing / threshold / access mode):
    #         unterminated quotes of growing length in an option value of a part header (the answer must still come)
    for bname in ('B1', 'B2'):
        bd, parts = BASES[bname]
        toks = tokens(parts, bd)
        for k, (kind, tok) in enumerate(toks):
            if kind != 'hdr':
                continue
            for label, alt in unterminated_quote_headers():
                yield from spread(join(toks[:k] + [[kind, alt]] + toks[k + 1:]), _mp_ctype(bd), f'{bname}:unterminated-quote{k}:{label}', 2,
                                  touches=['forms', 'catch', 'files', 'post', 'all'], mems=[DEFAULT_MEM, 4096])


SETUP_MODES = ['setup-cfg', 'setup-empty', 'setup-none', 'setup-app-keys', 'resetup-cfg']
# modes in which the request-level settings are the defaults (the case's `mem` is DEFAULT_MEM and max_body None there)
SETUP_DEFAULTS = ('setup-empty', 'setup-none', 'setup-app-keys')


def _gen_setup(tier):
    """malformed (and a few well-formed) bodies against applications configured by app.setup() after construction."""
    i = 0
    mp_touch = ['forms', 'files', 'post', 'all', 'catch', 'json', 'body']

    def modes(body, ctype, desc, touches, n=2, framings=FRAMINGS, small=True, **kw):
        # n setup modes for one body, rotating; modes with a config dict also rotate the thresholds
        nonlocal i
        i += 1
        for k in range(n):
            mode = SETUP_MODES[(i + 2 * k) % len(SETUP_MODES)] if k else SETUP_MODES[(i * 2) % len(SETUP_MODES)]
            if k == 0 and i % 2:
                mode = 'setup-cfg'
            mem = DEFAULT_MEM if (mode in SETUP_DEFAULTS or not small) else [DEFAULT_MEM, 64, 16, 4096][(i + k) % 4]
            c = _case(body, ctype, framings[(i + k) % len(framings)], mem, touches[(i + k) % len(touches)], 'setup:' + desc, **kw)
            if mode in SETUP_DEFAULTS:
                c['max_body'] = None
            c['setup'] = mode
            yield c

    for bname, (bd, parts) in BASES.items():
        toks = tokens(parts, bd)
        ct = _mp_ctype(bd)
        good = join(toks)
        for mode in SETUP_MODES:
            for touch in ('all', 'catch'):
                c = _case(good, ct, FRAMINGS[i % 2], DEFAULT_MEM, touch, f'setup:{bname}:intact')
                c['setup'] = mode
                yield c
        for k, (kind, tok) in enumerate(toks):
            yield from modes(join(toks[:k] + toks[k + 1:]), ct, f'{bname}:del-token{k}:{kind}', mp_touch)
        for a, alt in enumerate(HDR_VARIANTS):
            yield from modes(join(toks[:2] + [['hdr', alt]] + toks[3:]), ct, f'{bname}:alt-token2:hdr:{a}', mp_touch)
        for cut in range(0, len(good), 5):
            yield from modes(good[:cut], ct, f'{bname}:cut{cut}', mp_touch, n=2, framings=FRAMINGS[:2])
        yield from modes(good[:len(good) // 2], ct, f'{bname}:lying-cl', mp_touch, n=3, framings=[('cl', 0, 0)], cl=len(good))
        yield from modes(b'junk\r\n' + good, ct, f'{bname}:preamble', mp_touch, n=3)
    for body in JSON_BODIES:
        for touch in ('json', 'forms'):
            yield from modes(body, 'application/json', 'json-list', [touch], n=2, small=len(body) < 3000)
    for body in URL_BODIES:
        yield from modes(body, 'application/x-www-form-urlencoded', 'url-list', ['forms', 'post', 'catch'], n=2)
    for w in (b'5\r\nab', b'5\r\nabcde', b'5\r\nabcdeXX0\r\n\r\n', b'zz\r\n', b'zz\r\nabc\r\n0\r\n\r\n', b'-1\r\nab\r\n0\r\n\r\n', b'1' * 100 + b'\r\n',
              b'FFFFFFFFFFFFFFFFFFFF\r\nab\r\n0\r\n\r\n', b'3;' + b'x' * 200000 + b'\r\nabc\r\n0\r\n\r\n', b'\r\n', b'0\r\n', b'0', b''):
        for ct in (_mp_ctype('X'), 'application/json', 'application/x-www-form-urlencoded'):
            yield from modes(w, ct, 'wire-list', ['forms', 'json', 'body', 'catch'], n=2, framings=[('ch', 0, 0)], raw_wire=True)
    # over the thresholds: max_memfile_size (text field / urlencoded / json larger than it), max_body_size
    b1 = ms.build(BASES['B1'][1], 'BND', final_crlf=True)
    big = [(ms.build([(_cd(b'name="a"'), b'x' * 5000)], 'X', final_crlf=True), _mp_ctype('X')),
           (b'a=' + b'x' * 5000, 'application/x-www-form-urlencoded'), (b'{"a": "' + b'x' * 5000 + b'"}', 'application/json'),
           (b1, _mp_ctype('BND')), (b'a=1&b=2', 'application/x-www-form-urlencoded'), (b'{"a": 1}', 'application/json')]
    for body, ct in big:
        for mem in (4096, 64, 16):
            for mode in ('setup-cfg', 'resetup-cfg'):
                for fr in FRAMINGS[:2]:
                    for touch in ('forms', 'json', 'all', 'catch'):
                        c = _case(body, ct, fr, mem, touch, 'setup:over-memfile')
                        c['setup'] = mode
                        yield c
        for mb in (0, 1, 40):
            for mode in ('setup-cfg', 'resetup-cfg'):
                for fr in FRAMINGS[:2]:
                    i += 1
                    c = _case(body, ct, fr, DEFAULT_MEM if i % 2 else 32, TOUCHES[i % len(TOUCHES)], 'setup:max-body', max_body=mb)
                    c['setup'] = mode
                    yield c


def gen_cases(tier, seed):
    yield from _gen_cases_ctor(tier, seed)
    seen = set()
    for c in _gen_setup(tier):
        key = (c['ctype'], c['framing'], c['pieces'], c['tail'], c['cl'], c['raw_wire'], c['mem'], c['max_body'], c['touch'], c['setup'])
        h = hashlib.blake2b(repr(key).encode('utf8', 'backslashreplace') + c['body'], digest_size=12).digest()
        if h in seen:
            continue
        seen.add(h)
        yield c


def _gen_cases_ctor(tier, seed):
    # different mutations can give the same bytes: such a case is generated once (the enumerated small scopes and the
    # random part carry one fixed description each, so the runner's own distinct count already merges repeats there)
    seen = set()
    for c in _gen(tier, seed):
        if c['desc'].endswith('small-scope') or c['desc'].startswith('rnd-'):
            yield c
            continue
        key = (len(c['body']), c['ctype'], c['framing'], c['pieces'], c['tail'], c['cl'], c['raw_wire'], c['mem'], c['max_body'], c['touch'])
        h = hashlib.blake2b(repr(key).encode('utf8', 'backslashreplace') + c['body'], digest_size=12).digest()
        if h in seen:
            continue
        seen.add(h)
        yield c
        # every 50th distinct case also on a fresh worker thread (see run_case)
        if len(seen) % 50 == 0:
            yield dict(c, in_thread=True)


# ------------------------------------------------------------------------------------------------------------------

def _aslist(v):
    return list(v) if isinstance(v, list) else [v]


def _deliver(coll, sink):
    """flatten a forms/files/POST collection into delivered blobs: ('text', bytes) / ('file', bytes)."""
    if coll is None:
        return
    for k, val in list(coll.items()):
        for x in _aslist(val):
            if isinstance(x, str):
                try:
                    sink.append(('text', k, x.encode('utf8')))
                except UnicodeError:
                    sink.append(('text', k, x.encode('utf8', 'surrogatepass')))
            elif hasattr(x, 'file') and hasattr(x.file, 'read'):
                x.file.seek(0)
                sink.append(('file', k, x.file.read()))
            # other value types (JSON numbers etc. in forms built from a JSON object) are not multipart fields


def sent_payload(case):
    """the body that was sent, as the statement sees it; None when the framing itself is garbage (no oracle)."""
    body = case['body']
    if case['framing'] == 'ch':
        if not case['raw_wire']:
            return body
        ref = cs.decode(body)       # reference decoder (RFC 7230): only a legal wire has a payload to speak of
        return ref.body if ref.kind == 'legal' else None
    cl = case['cl']
    if cl == 'auto':
        return body
    if isinstance(cl, int):
        return body[:max(cl, 0)]
    return None


def run_case(case):
    if case.get('in_thread'):
        # served on a thread other than the one that imported the package (what a threaded server does): thread-local
        # state set up at import time (e.g. on the error objects of DefaultConfig.errors_map) is not there
        import threading
        box = {}
        c2 = dict(case)
        c2.pop('in_thread')

        def work():
            try:
                box['r'] = run_case(c2)
            except BaseException as e:  # noqa
                box['e'] = e
        t = threading.Thread(target=work, daemon=True)
        t.start()
        t.join(30)
        if t.is_alive():
            return fail('hang', detail='worker thread did not finish')
        if 'e' in box:
            raise box['e']
        return box.get('r')
    import ombott
    body = case['body']
    cfg = {'max_memfile_size': case['mem']}
    if case.get('max_body') is not None:
        cfg['max_body_size'] = case['max_body']
    mode = case.get('setup')
    if mode is None:
        app = ombott.Ombott(cfg)
    else:
        # the application is configured after construction; no configuration names an errors_map
        app = ombott.Ombott({'max_memfile_size': 7, 'max_body_size': 3}) if mode == 'resetup-cfg' else ombott.Ombott()
        if mode in ('setup-cfg', 'resetup-cfg'):
            app.setup(cfg)
        elif mode == 'setup-empty':
            app.setup({})
        elif mode == 'setup-none':
            app.setup()
        elif mode == 'setup-app-keys':
            app.setup({'catchall': True, 'debug': False})
        else:
            raise AssertionError(mode)
    touch = case['touch']
    delivered = []
    raised = []

    @app.route('/in', method='POST')
    def h():
        rq = app.request
        if touch == 'catch':
            for attr in ('forms', 'files', 'POST', 'json', 'body', 'forms', 'files', 'POST'):
                try:
                    v = getattr(rq, attr)
                    if attr == 'body':
                        v.read()
                    elif attr != 'json':
                        _deliver(v, delivered)
                except Exception as e:   # noqa - the contract judges what was raised
                    code = getattr(e, 'status_code', None)
                    raised.append((attr, type(e).__name__, code if isinstance(code, int) else None,
                                   isinstance(e, ombott.HTTPResponse)))
            return 'ok'
        if touch in ('body', 'all'):
            rq.body.read()
        if touch in ('json', 'all'):
            rq.json
        if touch in ('forms', 'all'):
            _deliver(rq.forms, delivered)
        if touch in ('files', 'all'):
            _deliver(rq.files, delivered)
        if touch in ('post', 'all'):
            _deliver(rq.POST, delivered)
        return 'ok'

    if case['framing'] == 'ch':
        if case['raw_wire']:
            wire = body
        else:
            p = case['pieces'] or max(len(body), 1)
            wire = chunk_encode([body[k:k + p] for k in range(0, len(body), p)])
        env = make_environ('/in', 'POST', stream=FragStream(wire, (), case['tail'] or None), content_type=case['ctype'], chunked=True)
    else:
        cl = case['cl']
        env = make_environ('/in', 'POST', stream=FragStream(body, (), case['tail'] or None), content_type=case['ctype'],
                           content_length=(len(body) if cl == 'auto' else cl))
    res = serve(app, env)
    last = [ln for ln in res.errors.strip().splitlines() if ln.strip()][-1:] if res.errors else []
    exc_line = last[0][:300] if last else None
    if res.exc is not None:
        return fail('E1.escaped', exc=repr(res.exc), exc_type=type(res.exc).__name__)
    code = res.code
    if code is None or not (code == 200 or 400 <= code <= 499):
        return fail('E1.status', status=res.status, exc_line=exc_line, exc_type=(exc_line or '').split(':')[0].split('.')[-1],
                    errors=res.errors[-700:])
    for attr, tname, scode, is_http in raised:
        if not (is_http and scode is not None and 400 <= scode <= 499):
            return fail('E1.access', access=attr, raised=tname, status_code=scode, exc_type=tname)
    if code == 200 and delivered:
        bd = _plain_boundary(case['ctype'])
        payload = sent_payload(case)
        if bd is not None and payload is not None:
            for kind, name, blob in delivered:
                if not ms.is_complete_part_data(payload, bd, blob):
                    return fail('E3.complete', kind=kind, name=name, delivered=blob, payload=payload if len(payload) < 600 else payload[:600])
    return None


# ------------------------------------------------------------------------------------------------------------------
# recognisers of known defect classes (labels only).  D5 = "a parsing failure reached from POST/forms/files/json is a 500",
# split by root cause (the exception that is not routed through the request error map).

def _is_mp(case):
    return (case['ctype'] or '').lower().startswith('multipart/')


def _is_json(case):
    return (case['ctype'] or '').lower().startswith('application/json')


def _exc(failure):
    return failure.get('exc_type') or ''


_E1 = ('E1.status', 'E1.access', 'E1.escaped')

FINDINGS = {
    'D5-multipart-markup-error-is-500':
        lambda c, f: f['clause'] in _E1 and _is_mp(c) and _exc(f) in ('InvalidBoundaryError', 'StopMarkupException', 'MalformedHeadersError',
                                                                      'UnexpectedBodyEndError', 'BodyParsingError', 'BaseMarkupException'),
    'D5-multipart-oversized-text-is-500':
        lambda c, f: f['clause'] in _E1 and _is_mp(c) and _exc(f) == 'BodySizeError',
    'D5-multipart-header-without-name-keyerror':
        lambda c, f: f['clause'] in _E1 and _is_mp(c) and _exc(f) == 'KeyError',
    'D5-multipart-header-without-colon-valueerror':
        lambda c, f: f['clause'] in _E1 and _is_mp(c) and _exc(f) == 'ValueError',
    'D5-multipart-empty-header-value-stopiteration':
        lambda c, f: f['clause'] in _E1 and _is_mp(c) and _exc(f) in ('StopIteration', 'RuntimeError'),
    'D5-multipart-empty-header-block-unboundlocalerror':
        lambda c, f: f['clause'] in _E1 and _is_mp(c) and _exc(f) == 'UnboundLocalError',
    'D5-multipart-non-utf8-unicodedecodeerror':
        lambda c, f: f['clause'] in _E1 and _is_mp(c) and _exc(f) == 'UnicodeDecodeError',
    'D5-json-invalid-is-500':
        lambda c, f: f['clause'] in _E1 and _is_json(c) and _exc(f) in ('JSONDecodeError', 'UnicodeDecodeError', 'RecursionError', 'ValueError'),
    'D5-json-non-object-as-form-is-500':
        lambda c, f: f['clause'] in _E1 and _is_json(c) and _exc(f) in ('TypeError', 'ValueError') and c['touch'] != 'json',
}
