"""Shared generator / observation helpers of the router case modules (C01, C02, C11, C19).

Nothing here re-implements ombott: rules are built as segment lists of /verif/spec/route_spec.py,
rendered to rule text by the spec module, registered on REAL routers/applications, and the real
answers are collected in a uniform shape:

    ('ok', handler id, kwargs)      ('404',)      ('405', [allowed names])     ('exc', text)
"""
import itertools

from spec import route_spec as S
from bounded.common import make_environ, serve

SIGMA = ['a', 'b', '/', '1', '-', '.', 'é', '\r']

Lit, Wild = S.Lit, S.Wild


def R(*parts):
    """R('/a/', W('x'), '/b') -> segment list; strings are literals."""
    rule = [Lit(p) if isinstance(p, str) else p for p in parts]
    assert S.valid_rule(rule), rule
    return rule


def W(name=None, filt=None, arg=None):
    return Wild(name, filt, arg)


# ----------------------------------------------------------------------------- rule pool
def rule_pool():
    x, y = W('x'), W('y')
    n, m = W('n', 'int'), W('m', 'int')
    f = W('f', 'float')
    r1 = W('r', 're', '[ab]+')
    r0 = W('r', 're', 'a*')
    p = W('p', 'path')
    return [
        # literals
        R('/'), R('/a'), R('/ab'), R('/b'), R('/a/b'), R('/a/b/a'), R('/ab/a'), R('/a/a'), R('/é'),
        R('/a-b'), R('/1'), R('/a.b'), R('/abb'),
        # plain wildcards
        R('/', x), R('/a/', x), R('/a/', x, '/b'), R('/', x, '/b'), R('/', x, '/', y), R('/a/', x, '/', y),
        R('/a/', y), R('/a/', W(None)), R('/ab/', x), R('/a/', x, '/a'), R('/a/', y, '/b'), R('/', y, '/a'),
        # in-segment mixes
        R('/a', x), R('/a', x, '/b'), R('/a', x, 'b'), R('/a', n, 'b'), R('/', n, '-', m), R('/a-', n),
        R('/', r1, '1'), R('/a/', n, '.', m), R('/', r0, 'b'), R('/a', n), R('/a/b', x), R('/', r1, '-', y),
        # filtered
        R('/', n), R('/a/', n), R('/a/', n, '/b'), R('/a/', f), R('/', f), R('/', r1), R('/a/', r1, '/b'),
        R('/a/', r0), R('/', r0, '/b'), R('/a/', p), R('/', p), R('/a/', p, '/b'), R('/', p, '/b'), R('/', p, 'b'),
        R('/a/', W(None, 'int')), R('/', W(None, 're', '[ab]+'), '/', x), R('/a/', W('k', 'int')),
        R('/a/', W('k', 'int'), '/b'), R('/b/', f, '/', n),
    ]


VALUE_POOL = {
    None: ['a', 'ab', 'b', '1', '-', '.', 'é', '\r', '', 'a-b', '1.1', 'a\rb', 'ba'],
    'int': ['1', '11', '-1', '-', '1a', 'a', '', '1.1', '01', '-0', '1é'],
    'float': ['1', '1.1', '-1.1', '1.', '.1', '1.1.1', '-', '1e1', '-0', '1.10'],
    're:[ab]+': ['a', 'ab', 'ba', 'abab', '', '1', 'aé', 'b'],
    're:a*': ['', 'a', 'aa', 'b'],
    'path': ['a', 'a/b', 'a/b/a', '', 'a//b', 'é/\r', 'b/b', 'b', '1/-'],
}


def values_for(seg):
    key = seg[2]
    if key == 're':
        key = 're:' + seg[3]
    return VALUE_POOL.get(key) or VALUE_POOL['re:[ab]+']


def guided_paths(rule, rnd, limit=120, extra_values=None):
    """Paths made from the rule itself: wildcards filled from the value pools, then perturbed."""
    choices = []
    for seg in rule:
        if S.is_lit(seg):
            choices.append([seg[1]])
        else:
            vals = list(values_for(seg))
            if extra_values and seg[2] in extra_values:
                vals += extra_values[seg[2]]
            choices.append(vals)
    total = 1
    for c in choices:
        total *= len(c)
    if total <= limit:
        base = [''.join(t) for t in itertools.product(*choices)]
    else:
        base = [''.join(rnd.choice(c) for c in choices) for _ in range(limit)]
    out = []
    for pth in base:
        out.append(pth)
        k = rnd.randrange(8)
        if k == 0:
            out.append(pth + '/')
        elif k == 1:
            out.append('/' + pth)
        elif k == 2 and len(pth) > 1:
            i = rnd.randrange(1, len(pth))
            out.append(pth[:i] + pth[i + 1:])
        elif k == 3:
            i = rnd.randrange(1, len(pth) + 1)
            out.append(pth[:i] + rnd.choice(SIGMA) + pth[i:])
        elif k == 4 and '/' in pth[1:]:
            i = pth.index('/', 1)
            out.append(pth[:i] + '/' + pth[i:])
    return out


def all_paths(maxlen, part=0, parts=1, sigma=SIGMA):
    """Every string over sigma of length 1..maxlen behind a leading '/', partitioned round-robin."""
    k = 0
    if part == 0:
        yield '/'
    for nlen in range(1, maxlen + 1):
        for t in itertools.product(sigma, repeat=nlen):
            if k % parts == part:
                yield '/' + ''.join(t)
            k += 1


def random_rule(rnd, names=('x', 'y', 'z', 'n', 'k')):
    """A random valid rule of 1..3 '/'-separated segments over the segment alphabet of DESIGN.md C01."""
    for _ in range(100):
        nseg = rnd.choice([1, 2, 2, 3, 3])
        parts = []
        free = list(names)
        rnd.shuffle(free)

        def wild():
            filt = rnd.choice([None, None, None, 'int', 'float', 're', 're', 'path'])
            arg = rnd.choice(['[ab]+', 'a*']) if filt == 're' else None
            name = free.pop() if (free and rnd.random() < 0.85) else None
            return W(name, filt, arg)
        for s in range(nseg):
            parts.append('/')
            kind = rnd.randrange(10)
            lit = rnd.choice(['a', 'ab', 'b', 'a', '1', 'a-', 'é', 'a.'])
            if kind < 4:
                parts.append(lit)
            elif kind < 8:
                parts.append(wild())
            elif kind == 8:
                parts.extend([lit, wild()])
            else:
                parts.extend([lit, wild(), rnd.choice(['b', '-', '.', '1'])])
        merged = []
        for prt in parts:
            if isinstance(prt, str) and merged and isinstance(merged[-1], str):
                merged[-1] += prt
            else:
                merged.append(prt)
        rule = [Lit(q) if isinstance(q, str) else q for q in merged]
        if S.valid_rule(rule):
            return rule
    return R('/a')


# ----------------------------------------------------------------------------- registration on real code
def cross_flavour_clash(rule_a, fl_a, rule_b, fl_b):
    """ombott keys an argument-less filter differently when written `<x:int>` and `{x.int()}`; two rules
    sharing such a wildcard position in different flavours are refused.  The statement is silent on
    which registrations are accepted, so this refusal is tolerated (the rule is then not registered)."""
    if (fl_a == 'brace') == (fl_b == 'brace'):
        return False
    for ta, tb in zip(S.tokens(rule_a), S.tokens(rule_b)):
        if ta != tb:
            return False
        if not isinstance(ta, str) and ta[1] in ('int', 'float'):
            return True
    return False


def make_handler(hid, log=None):
    def handler(**kw):
        if log is not None:
            log.append((hid, kw))
        return 'ok'
    handler.hid = hid
    return handler


def observe_resolve(router, path, verb):
    """What RadiRouter.resolve answers for the candidate list the application would build."""
    try:
        end_point, err = router.resolve(path, S.candidates_for(verb))
    except Exception as e:  # noqa
        return ('exc', '%s: %s' % (type(e).__name__, e))
    if end_point:
        meth, params, _hooks = end_point
        return ('ok', getattr(meth.handler, 'hid', None), params)
    if err[0] == 404:
        return ('404',)
    if err[0] == 405:
        return ('405', sorted(x for x in err[2].split(',') if x))
    return ('exc', 'unexpected error tuple %r' % (err[:2],))


def observe_app(app, log, path, verb):
    """One request through Ombott.__call__: which handler ran with which kwargs, or the error status."""
    del log[:]
    res = serve(app, make_environ(path, verb))
    if res.exc is not None:
        return ('exc', repr(res.exc))
    code = res.code
    if code == 200:
        if len(log) != 1:
            return ('exc', 'status 200 but %d handler calls' % len(log))
        return ('ok', log[0][0], log[0][1])
    if log:
        return ('exc', 'status %s but a handler ran' % code)
    if code == 404:
        return ('404',)
    if code == 405:
        allow = res.header_all('Allow')
        names = sorted(x.strip() for v in allow for x in v.split(',') if x.strip())
        return ('405', names)
    return ('exc', 'status %s: %s' % (res.status, res.errors[-300:]))


def same_value(a, b):
    return type(a) is type(b) and a == b


def same_params(a, b):
    return set(a) == set(b) and all(same_value(a[k], b[k]) for k in a)


# ----------------------------------------------------------------------------- exhaustive small rule universe
# One entry per '/'-separated segment: a tuple of parts; str = literal text, ('W', filter, arg, named) = wildcard.
SEGMENT_ALPHABET = (
    ('a',), ('ab',), ('b',),
    (('W', None, None, True),),                 # :x
    (('W', None, None, False),),                # ':' anonymous plain (final position only)
    (('W', 'int', None, True),),
    (('W', 'int', None, False),),               # anonymous int
    (('W', 'float', None, True),),
    (('W', 're', '[ab]+', True),),
    (('W', 're', 'a*', True),),
    (('W', 'path', None, True),),
    ('a', ('W', None, None, True)),             # a<x>
    ('a', ('W', None, None, True), 'b'),        # a<x>b
    (('W', None, None, True), 'b'),             # <x>b
    (('W', 'int', None, True), ('W', None, None, True)),   # <n:int><x>   adjacent wildcards
    ('a', ('W', 'int', None, True), '-', ('W', 'int', None, True)),   # a<n:int>-<m:int>
    (('W', 'path', None, True), 'b'),           # <p:path>b
)


def universe_rules(maxseg, names=('x', 'y', 'z', 'u', 'v', 'w'), alphabet=SEGMENT_ALPHABET):
    """Every valid rule of 1..maxseg '/'-separated segments over `alphabet`; wildcards are named in order
    of appearance from `names` (so two universes built with different `names` give same-pattern rules
    with different parameter names)."""
    out = []
    for nseg in range(1, maxseg + 1):
        for combo in itertools.product(alphabet, repeat=nseg):
            merged = []
            k = 0
            for seg in combo:
                for prt in ('/',) + seg:
                    if isinstance(prt, str):
                        if merged and isinstance(merged[-1], str):
                            merged[-1] += prt
                        else:
                            merged.append(prt)
                    else:
                        _w, filt, arg, named = prt
                        name = None
                        if named:
                            name = names[k]
                            k += 1
                        merged.append(W(name, filt, arg))
            rule = [Lit(q) if isinstance(q, str) else q for q in merged]
            if S.valid_rule(rule):
                out.append(rule)
    return out


def rule_has_wildcard(rule):
    return any(not S.is_lit(seg) for seg in rule)
