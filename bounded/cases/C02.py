"""C02 bounded stand-in / replay harness: method dispatch (verb > GET-for-HEAD > ANY), 405 with exact Allow, 404/405 split.

Contract (every clause is a sentence of the property statement), checked on the REAL router and application:

  a case = a rule set (segment lists of spec/route_spec.py rendered to rule text), a history of registrations
  (`add`: one or several method spellings, one handler, overwrite or not) and per-method removals, and probe paths.
  A model keeps, per route (= pattern), the table METHOD(upper) -> handler id the history leaves behind:
      accepted registration  -> the named methods now map to the new handler (other entries untouched)
      refused registration   -> nothing changes (a refused registration registered nothing)
      removal of a method    -> exactly that entry disappears
  For every probe path x every request verb the answer must be
      K1.dispatch   path selects a route, a candidate of [verb, GET if HEAD, ANY] is in its table
                    -> 200 and exactly the handler of the FIRST such candidate ran (once)
      K2.allow      path selects a route, no candidate in its table -> 405 and the Allow header lists exactly the
                    registered method names (compared upper-cased, as a list: no extras, no repeats, none missing)
      K3.split      path selects no route -> 404 (never 405); path selects a route -> never 404
                    (a route whose methods were all removed one by one is still a route: 405 with empty Allow)
      K0.accept     a registration of methods not yet on the route, or with overwrite=True, is accepted (otherwise the
                    quantified assignments could not be made at all)
  observed twice: through Ombott.__call__ (status line, Allow header, which handler ran; verb spelled as the case says,
  so case-insensitivity of the request side is exercised) and through RadiRouter.resolve(path, candidates).
  Route HOOKS (app.on_route / app.remove_route_hook) are not methods of a route: history ops `hook` / `unhook` install and
  remove a hook on exactly a route's rule, on a parent or child rule, or on a rule no route has; the model table does not
  move, so every clause above must hold unchanged after each of them (a hook-only rule is no route: 404).
  Route selection itself comes from the independent oracle spec/route_spec.select (rule sets are kept to shapes on which
  selection is unambiguous; paths never contain CR - that is C01's business).  Handler kwargs are NOT compared (C01).
"""
import itertools
import random

from spec import route_spec as S
from bounded.common import fail
from bounded.cases import _router_common as RC

R, W = RC.R, RC.W

BOUND = ('routes /r and /r/:x: all 32x32 assignments of subsets of {GET,POST,HEAD,ANY,put(lower-case)} (one handler per '
         'method); for all 32 subsets on /r x 4 tables on /r/:x x every single follow-up op in {overwrite m, plain re-add m, '
         're-add [m,m\'] (atomic refusal), remove m (two APIs), remove all one by one}; 9 further rule sets (literal beats '
         'wildcard with disjoint tables, two rule texts on one pattern, root + path filter, int filter, in-segment wildcard, '
         '3 routes, prefix-only node, 3 syntax flavours) x 8x8 tables x grouped/mixed-case registrations through '
         'router.add / app.add_route / @app.route / @app.get..; request verbs {GET,HEAD,POST,PUT,get,Head,pOsT,put,ANY,any,'
         'OPTIONS,DELETE,PATCH,""} x matching / non-matching / prefix / extended paths; exhaustive; plus seeded random rule '
         'sets from the shared rule pool with op histories of length <=10 (thorough: 3-route exhaustive 8^3 tables x follow-ups, '
         'two follow-up ops, 6000 random histories); REWRITTEN VERBS, end to end through Ombott.__call__, oracle applied to the '
         'rewritten verb/path: (hook) a before_request hook that sets request[REQUEST_METHOD] after 0/1 reads of request.method '
         '(and one read after), 32 verb pairs (POST->DELETE/delete/put/GET/HEAD/.., GET->POST/HEAD/.., HEAD->GET/POST, '
         'lower/mixed-case spellings, "" and ANY) x all probe paths; (forward) a handler serves the app again with '
         'dict(request.environ) (or a fresh environ) whose REQUEST_METHOD and PATH_INFO are rewritten: <=4 arrivals of '
         '{POST,GET,head,put,DELETE} x all probe paths x 12 target verbs; on /r,/r/:x 32x4 + 32 tables and every second '
         'follow-up history, on the 8 other rule sets 8x8 tables, plus 120 seeded random rule sets/histories (thorough 3000); '
         'ROUTE HOOKS in the history (on_route / remove_route_hook, function and decorator form; the tables must not move): '
         'on each of the 9 rule sets x 6 table pairs x every hook target (each rule of the set = exactly a route\'s rule, '
         'plus 3..4 parent / child / sibling / route-less rules) x {install+remove after the routes, install before the '
         'routes, install twice + remove twice, remove a hook never installed, install - remove or overwrite a method - '
         'remove}, every ordered pair of targets (install both, remove both in either order), all probes after every hook op; '
         'plus 150 seeded random histories (thorough 3000) with 1..3 install/remove pairs at random places')
NONTRIVIAL_RULE = ('distinct (rules, history, paths); non-trivial = at least one route has a non-empty table and at least one '
                   'probe path selects a route')

METHODS = ['GET', 'POST', 'HEAD', 'ANY', 'put']
VERBS = ['GET', 'HEAD', 'POST', 'PUT', 'get', 'Head', 'pOsT', 'put', 'ANY', 'any', 'OPTIONS', 'DELETE', 'PATCH', '']
VERBS_404 = ['GET', 'HEAD', 'POST', 'put', 'ANY', '']
SHORTCUTS = {'DELETE', 'GET', 'HEAD', 'OPTIONS', 'PATCH', 'POST', 'PUT'}


def exhaustive(tier):
    return True


def nontrivial(case):
    return any(op[0] == 'add' for op in case['ops']) and bool(case['paths'])


# ----------------------------------------------------------------------------- rule sets
def _rule_sets():
    x, y, n, p = W('x'), W('y'), W('n', 'int'), W('p', 'path')
    return {
        'two': dict(rules=[R('/r'), R('/r/', x)],
                    paths=['/r', '/r/v', '/r/', '/q', '/r/v/w', '/', '/rr']),
        'litwild': dict(rules=[R('/a/b'), R('/a/', x)],          # literal beats wildcard, tables stay apart
                        paths=['/a/b', '/a/c', '/a', '/a/b/c', '/b']),
        'alias': dict(rules=[R('/a/', x), R('/a/', y)],          # two rule texts, ONE route: tables united
                      paths=['/a/v', '/a', '/a/v/w']),
        'root': dict(rules=[R('/'), R('/', p)],
                     paths=['/', '', '/a', '/a/b', '//']),
        'int': dict(rules=[R('/a/', n), R('/a/', n, '/b')],
                    paths=['/a/7', '/a/-7/b', '/a/x', '/a/7/c', '/a', '/a/7/']),
        'inseg': dict(rules=[R('/a', x), R('/a', x, '/b')],
                      paths=['/ab', '/ab/b', '/a', '/ab/c', '/a/b']),
        'three': dict(rules=[R('/ab'), R('/abc'), R('/ab/', x)],
                      paths=['/ab', '/abc', '/ab/c', '/a', '/abcd', '/abd']),
        'prefix': dict(rules=[R('/a/b/c'), R('/a/b/d')],         # /a/b is a node of the tree but no route
                       paths=['/a/b/c', '/a/b/d', '/a/b', '/a', '/a/b/', '/a/b/cd']),
        'uni': dict(rules=[R('/é'), R('/é/', x)],
                    paths=['/é', '/é/é', '/e', '/é/é/é']),
    }


RULE_SETS = _rule_sets()


def _hook_extras():
    """Per rule set: rules that are NOT routes of the set but parents / children / siblings of its rules in the tree
    (targets of route hooks), and probe paths that match them (must stay 404 / go on selecting the set's routes)."""
    x, n, h = W('x'), W('n', 'int'), W('h')
    return {
        'two': dict(rules=[R('/'), R('/r/', x, '/w'), R('/rr'), R('/q')], paths=['/rr/v', '/r/v/w/z']),
        'litwild': dict(rules=[R('/a'), R('/a/b/c'), R('/a/', x, '/c'), R('/')], paths=['/a/c/c', '/a/b/c/d']),
        'alias': dict(rules=[R('/a'), R('/a/', h), R('/a/', x, '/w'), R('/b')], paths=['/b', '/a/v/w/z']),
        'root': dict(rules=[R('/a'), R('/a/b'), R('/b')], paths=['/b', '/a/b/c']),
        'int': dict(rules=[R('/a'), R('/a/', n, '/b/c'), R('/a/7'), R('/')], paths=['/a/7/b/c', '/a/-7']),
        'inseg': dict(rules=[R('/a'), R('/a', x, '/b/c'), R('/ab'), R('/')], paths=['/ab/b/c', '/ac']),
        'three': dict(rules=[R('/a'), R('/ab/', x, '/d'), R('/abcd'), R('/abd')], paths=['/ab/c/d', '/ab/']),
        'prefix': dict(rules=[R('/a/b'), R('/a'), R('/a/b/c/e'), R('/a/b/', x)], paths=['/a/b/c/e', '/a/b/e']),
        'uni': dict(rules=[R('/\xe9/\xe9'), R('/'), R('/\xe9/', x, '/\xe9'), R('/e')], paths=['/\xe9/e', '/\xe9/\xe9/\xe9/e']),
    }


HOOK_EXTRAS = _hook_extras()
HOOK_TABLES = [[['GET', 'POST'], ['GET']], [['GET'], ['POST']], [['ANY'], []], [[], ['GET']],
               [['HEAD', 'ANY'], ['POST', 'put']], [['GET', 'POST', 'HEAD'], ['ANY']]]


def _subsets(items):
    for k in range(len(items) + 1):
        for c in itertools.combinations(items, k):
            yield list(c)


def _hid(ri, m, tag=''):
    return 'r%d.%s%s' % (ri, m.upper(), tag)


def _base_ops(ri, subset, via='router'):
    return [['add', ri, [m], _hid(ri, m), 0, via] for m in subset]


def _followups(ri, subset):
    """Single follow-up histories on route ri that carries `subset`."""
    out = [[]]
    for m in METHODS:
        out.append([['add', ri, [m], _hid(ri, m, '+ow'), 1, 'router']])
        out.append([['add', ri, [m.swapcase()], _hid(ri, m, '+re'), 0, 'app']])
        out.append([['rm', ri, m.upper(), 'route']])
    # atomic refusal: a list naming one new and one registered method
    for m_new in METHODS:
        if m_new in subset:
            continue
        for m_old in subset[:1]:
            out.append([['add', ri, [m_new, m_old], _hid(ri, m_new, '+pair'), 0, 'router']])
            out.append([['add', ri, [m_old, m_new], _hid(ri, m_new, '+pair2'), 1, 'deco']])
    # removal through the RouteMethod object, and removal of everything one by one
    for m in subset[:2]:
        out.append([['rm', ri, m.upper(), 'meth']])
    if subset:
        out.append([['rm', ri, m.upper(), 'route'] for m in subset])
        out.append([['rm', ri, m.upper(), 'meth'] for m in reversed(subset)] + [['add', ri, ['post'], _hid(ri, 'POST', '+back'), 0, 'app']])
    return out


def _case(rs, ops, flavours=None, paths=None, each=0):
    d = RULE_SETS[rs]
    fl = list(flavours or ['colon'] * len(d['rules']))
    rs_rules = d['rules']
    if any(RC.cross_flavour_clash(rs_rules[i], fl[i], rs_rules[j], fl[j])
           for i in range(len(fl)) for j in range(len(fl)) if i != j):
        fl = [fl[0]] * len(fl)     # `<n:int>` and `{n.int()}` at one position are refused by ombott (statement silent)
    return dict(rules=[[r, f] for r, f in zip(d['rules'], fl)], ops=ops, paths=list(paths or d['paths']), each=each)


SOME_TABLES = [[], ['GET'], ['POST', 'ANY'], ['GET', 'POST', 'HEAD', 'ANY', 'put']]
EIGHT = [[], ['GET'], ['HEAD'], ['ANY'], ['GET', 'ANY'], ['POST', 'put'], ['HEAD', 'ANY'], ['GET', 'POST', 'HEAD']]


def gen_cases(tier, seed):
    cases = list(_gen_cases(tier, seed))
    random.Random(12345).shuffle(cases)       # spread the heavy groups evenly over the workers (index % jobs)
    return cases


def _gen_cases(tier, seed):
    subsets = list(_subsets(METHODS))
    # A: all 32 x 32 assignments on two routes
    for s0 in subsets:
        for s1 in subsets:
            yield _case('two', _base_ops(0, s0) + _base_ops(1, s1))
    # A2: every follow-up on route 0 (and mirrored on route 1 for a few tables)
    for s0 in subsets:
        for s1 in SOME_TABLES:
            for fu in _followups(0, s0):
                if fu:
                    yield _case('two', _base_ops(0, s0) + _base_ops(1, s1) + fu)
    for s1 in subsets:
        for fu in _followups(1, s1):
            if fu:
                yield _case('two', _base_ops(1, s1) + _base_ops(0, ['GET', 'put']) + fu)
    # B: other rule sets, 8 x 8 tables, registration API and flavour varied
    vias = ['router', 'app', 'deco', 'short']
    k = 0
    for rs, d in RULE_SETS.items():
        if rs == 'two':
            continue
        nr = len(d['rules'])
        for s0 in EIGHT:
            for s1 in EIGHT:
                k += 1
                tabs = [s0, s1] + ([EIGHT[(k + 3) % 8]] if nr == 3 else [])
                fl = [S.FLAVOURS[(k + i) % 3] for i in range(nr)]
                ops = []
                for ri in range(nr):
                    ops += _base_ops(ri, tabs[ri], vias[(k + ri) % 4])
                yield _case(rs, ops, fl)
        # grouped, mixed-case registrations: one handler for a list of spellings
        for group in (['get', 'Post'], ['ANY', 'head'], ['any'], ['Put', 'GET', 'get'], ['hEAD']):
            for via in ('router', 'app', 'deco'):
                ops = [['add', 0, group, 'g0', 0, via], ['add', 1, ['post'], 'g1', 0, via]]
                yield _case(rs, ops)
                yield _case(rs, ops + [['add', 0, ['GET', 'HEAD'], 'g2', 1, via], ['rm', 0, 'HEAD', 'meth']])
                yield _case(rs, ops + [['rm', 0, group[0].upper(), 'route'], ['add', 0, [group[0]], 'g3', 0, via]], each=1)
        for s0 in EIGHT[1:]:
            for fu in _followups(0, s0):
                if fu:
                    yield _case(rs, _base_ops(0, s0, 'app') + _base_ops(1, ['POST'], 'deco') + fu)
    if tier != 'quick':
        # three routes, 8^3 tables, follow-ups on the middle one
        for s0 in EIGHT:
            for s1 in EIGHT:
                for s2 in EIGHT:
                    base = _base_ops(0, s0) + _base_ops(1, s1, 'app') + _base_ops(2, s2, 'deco')
                    yield _case('three', base)
                    for fu in _followups(1, s1)[1::3]:
                        yield _case('three', base + fu)
        # two follow-ups in a row on route 0
        for s0 in subsets[::3]:
            fus = [f for f in _followups(0, s0) if f]
            for f1 in fus:
                for f2 in fus[::2]:
                    yield _case('two', _base_ops(0, s0) + _base_ops(1, ['ANY']) + f1 + f2, each=1)
    # C: seeded random rule sets and histories
    for c in _random_cases(random.Random(seed * 7919 + 2), 250 if tier == 'quick' else 6000):
        yield c
    # D: rewritten verbs - before_request method override and internal forwards
    for c in _rewrite_cases(tier, seed):
        yield c
    # E: route hooks installed and removed in the history
    for c in _hook_cases(tier, seed):
        yield c


def _hook_case(rs, ops, flavours=None):
    d, e = RULE_SETS[rs], HOOK_EXTRAS[rs]
    c = _case(rs, ops, flavours, paths=d['paths'] + [q for q in e['paths'] if q not in d['paths']], each=2)
    fl0 = c['rules'][0][1]
    c['hook_rules'] = [[r, fl0] for r in e['rules']]
    return c


def _hook_cases(tier, seed):
    vias = ['router', 'app', 'deco', 'short']
    k = 0
    for rs, d in RULE_SETS.items():
        nr = len(d['rules'])
        targets = list(range(nr + len(HOOK_EXTRAS[rs]['rules'])))
        for ti, tabs in enumerate(HOOK_TABLES):
            tabs = tabs + ([['put']] if nr == 3 else [])
            for t in targets:
                k += 1
                fl = [S.FLAVOURS[(k + i) % 3] for i in range(nr)]
                base = []
                for ri in range(nr):
                    base += _base_ops(ri, tabs[ri], vias[(k + ri) % 4])
                how = ['func', 'deco', 'router'][k % 3]
                hk, un = ['hook', t, how], ['unhook', t, 'router' if how == 'router' else 'app']
                yield _hook_case(rs, base + [hk, un], fl)                         # the seeded scenario: on, off
                yield _hook_case(rs, [hk] + base + [un], fl)                      # hook first, routes later
                yield _hook_case(rs, base + [hk, ['hook', t, 'func'], un, un], fl)   # two hooks on one rule; second removal finds none
                yield _hook_case(rs, base + [un], fl)                             # removal of a hook that was never installed
                ri = k % nr
                m = (tabs[ri] or ['GET'])[0]
                mid = [['rm', ri, m.upper(), 'route']] if k % 2 else [['add', ri, [m], _hid(ri, m, '+ow'), 1, 'app']]
                yield _hook_case(rs, base + [hk] + mid + [un], fl)
                yield _hook_case(rs, base + [hk, un, ['add', ri, ['delete'], _hid(ri, 'DELETE', '+new'), 0, 'router']], fl)
        # two hooks on different rules (a route's rule and its parent / child / sibling), removed in either order
        tabs = HOOK_TABLES[0] + ([['put']] if nr == 3 else [])
        base = []
        for ri in range(nr):
            base += _base_ops(ri, tabs[ri])
        for t, u in itertools.permutations(targets, 2):
            k += 1
            ops = base + [['hook', t, 'func'], ['hook', u, 'deco'], ['unhook', t, 'app'], ['unhook', u, 'app']]
            yield _hook_case(rs, ops, [S.FLAVOURS[k % 3]] * nr)
    # seeded random histories with hooks put in
    rnd = random.Random(seed * 7919 + 11)
    for c in _random_cases(random.Random(seed * 7919 + 9), 150 if tier == 'quick' else 3000):
        ops = list(c['ops'])
        for _j in range(rnd.randrange(1, 4)):
            t = rnd.randrange(len(c['rules']))
            i = rnd.randrange(len(ops) + 1)
            ops.insert(i, ['hook', t, rnd.choice(['func', 'deco', 'router'])])
            ops.insert(rnd.randrange(i + 1, len(ops) + 1), ['unhook', t, rnd.choice(['app', 'router'])])
        yield dict(c, ops=ops, each=2, hook_rules=[])


def _random_cases(rnd, count):
    pool = [r for r in RC.rule_pool() if not any('\r' in s[1] for s in r if S.is_lit(s))]
    for _ in range(count):
        rules = []
        for _t in range(40):
            if len(rules) >= rnd.choice([2, 3, 4]):
                break
            cand = rnd.choice(pool) if rnd.random() < 0.8 else RC.random_rule(rnd)
            fl = rnd.choice(S.FLAVOURS)
            if any(S.filter_conflict(cand, r) or RC.cross_flavour_clash(cand, fl, r, f) for r, f in rules):
                continue
            if not _selection_is_robust(cand):
                continue
            rules.append([cand, fl])
        ops = []
        for i in range(rnd.randrange(1, 11)):
            ri = rnd.randrange(len(rules))
            if rnd.random() < 0.7:
                ms = [rnd.choice(['GET', 'POST', 'HEAD', 'ANY', 'put', 'get', 'Delete', 'head'])
                      for _k in range(rnd.choice([1, 1, 1, 2, 3]))]
                ops.append(['add', ri, ms, 'h%d' % i, int(rnd.random() < 0.4), rnd.choice(['router', 'app', 'deco'])])
            else:
                ops.append(['rm', ri, rnd.choice(['GET', 'POST', 'HEAD', 'ANY', 'PUT', 'DELETE']), rnd.choice(['route', 'meth'])])
        paths = []
        for r, _f in rules:
            for pth in RC.guided_paths(r, rnd, limit=6):
                if '\r' not in pth and pth.startswith('/') and pth not in paths:
                    paths.append(pth)
        yield dict(rules=rules, ops=ops, paths=paths[:14], each=1)


def _selection_is_robust(rule):
    """Random part only: keep to rules whose selection semantics C01 pins without corner decisions (no `path` filter,
    no possibly-empty regex) - selection corners are C01's subject and must not surface here as C02 alarms."""
    for seg in rule:
        if not S.is_lit(seg) and (seg[2] == 'path' or (seg[2] == 're' and seg[3] == 'a*')):
            return False
    return True


# ----------------------------------------------------------------------------- running one case
def _register(app, via, text, methods, handler, overwrite):
    if via == 'router':
        app.router.add(text, list(methods), handler, overwrite=overwrite)
    elif via == 'app':
        app.add_route(text, methods[0] if len(methods) == 1 else list(methods), handler, overwrite=overwrite)
    elif via == 'deco':
        app.route(text, method=(methods[0] if len(methods) == 1 else list(methods)), overwrite=overwrite)(handler)
    elif via == 'short':
        for m in methods:
            if m.upper() in SHORTCUTS:
                getattr(app, m.lower())(text, overwrite=overwrite)(handler)
            else:
                app.route(text, method=m, overwrite=overwrite)(handler)
    else:
        raise AssertionError(via)


def _expected(rules, toks, tables, path, verb):
    live = [i for i in range(len(rules)) if toks[i] in tables]      # rules for which a route exists
    outs = S.select([rules[i] for i in live], path, [toks[i] for i in live])
    if not outs:
        return ('404',), None
    if len(outs) > 1:
        return None, None                       # the statement does not order the candidates: silent
    key = toks[live[outs[0][0][0]]]
    kind, val = S.dispatch(tables.get(key, {}), verb)
    if kind == 'ok':
        return ('ok', val), key
    return ('405', sorted(val)), key


def _check_state(app, log, rules, toks, tables, paths, step):
    for path in paths:
        matched = _expected(rules, toks, tables, path, 'GET')[0] != ('404',)
        for verb in (VERBS if matched else VERBS_404):
            exp, _key = _expected(rules, toks, tables, path, verb)
            if exp is None:
                continue
            for level in ('app', 'resolve'):
                if level == 'app':
                    obs = RC.observe_app(app, log, path, verb)
                else:
                    obs = RC.observe_resolve(app.router, path, verb)
                if obs[0] == 'ok':
                    obs = obs[:2]
                elif obs[0] == '405':
                    obs = ('405', sorted(x.upper() for x in obs[1]))
                if obs == exp:
                    continue
                det = dict(level=level, path=path, verb=verb, expected=exp, observed=obs, after_op=step,
                           table={'/'.join(map(str, k)): v for k, v in tables.items()})
                if exp[0] == '404' or obs[0] == '404':
                    return fail('K3.split', **det)
                if obs[0] == 'exc':
                    return fail('K1.dispatch' if exp[0] == 'ok' else 'K2.allow', **det)
                if exp[0] == 'ok':
                    return fail('K1.dispatch', **det)
                return fail('K2.allow', **det)
    return None


def _apply_op(app, op, step, texts, toks, tables, handlers, new_handler):
    """Play one history op on the real application and on the model table; a failure or None."""
    if op[0] == 'add':
        _, ri, methods, hid, ow, via = op
        if hid not in handlers:
            handlers[hid] = new_handler(hid)
        h = handlers[hid]
        steps = [[m] for m in methods] if via == 'short' else [methods]
        for ms in steps:                     # the shortcut API registers one method per call
            try:
                _register(app, 'short' if via == 'short' else via, texts[ri], ms, h, bool(ow))
                accepted = True
            except Exception as e:  # noqa - the contract decides
                accepted = False
                err = '%s: %s' % (type(e).__name__, str(e)[:200])
            ok_here = bool(ow) or not ({m.upper() for m in ms} & set(tables.get(toks[ri], {})))
            if accepted:
                t = tables.setdefault(toks[ri], {})
                for m in ms:
                    t[m.upper()] = hid
            elif ok_here:
                return fail('K0.accept', op=op, error=err, after_op=step)
    elif op[0] in ('hook', 'unhook'):
        # route hooks are no methods: the model table stays as it is.  A refused installation / removal changes nothing.
        _, ti, how = op
        try:
            if op[0] == 'unhook':
                (app.router.remove_hook if how == 'router' else app.remove_route_hook)(texts[ti])
            elif how == 'deco':
                app.on_route(texts[ti])(lambda *a, **kw: None)
            elif how == 'router':
                app.router.add_hook(texts[ti], lambda *a, **kw: None)
            else:
                app.on_route(texts[ti], lambda *a, **kw: None)
        except Exception:  # noqa - the statement does not say which hook rules are accepted
            pass
    else:
        _, ri, m, via = op
        route = app.router[{texts[ri]}]
        table = tables.get(toks[ri])
        if route is None and table is not None:
            return fail('K3.split', level='lookup', detail='route object of a registered rule not found',
                        rule=texts[ri], after_op=step)
        if route is not None:
            try:
                if via == 'meth' and m in route.methods:
                    route.methods[m].remove()
                else:
                    route.remove_method(m)
            except Exception:  # noqa - removing what is not there may be refused; the table must not change
                pass
        if table is not None:
            table.pop(m, None)
    return None


def run_case(case):
    if case.get('kind') in ('hook', 'forward'):
        return _run_rewrite_case(case)
    import ombott
    app = ombott.Ombott()
    log = []
    rules = [r for r, _f in case['rules']]
    texts = [S.render(r, f) for r, f in case['rules']]
    texts += [S.render(r, f) for r, f in case.get('hook_rules', [])]      # hook targets that are no rules of the set
    toks = [S.tokens(r) for r in rules]
    handlers = {}
    tables = {}         # pattern -> {METHOD: hid}; a pattern is present once a route was created for it
    nops = len(case['ops'])
    for step, op in enumerate(case['ops']):
        f = _apply_op(app, op, step, texts, toks, tables, handlers, lambda hid: RC.make_handler(hid, log))
        if f:
            return f
        each = case.get('each')
        if each == 2:                        # histories with hooks: every probe after every hook op
            each = op[0] in ('hook', 'unhook')
        if each or step == nops - 1:
            f = _check_state(app, log, rules, toks, tables, case['paths'], step)
            if f:
                return f
    if not nops:
        return _check_state(app, log, rules, toks, tables, case['paths'], -1)
    return None


# ----------------------------------------------------------------------------- rewritten verbs (hook / internal forward)
# "the request goes to the handler registered for ITS method": the method of a request is the REQUEST_METHOD its environ
# carries when routing happens.  Two ordinary ways in which that differs from the verb the environ was first seen with:
#   kind 'hook'     a before_request hook (the documented place: "request context available, no routing has happened yet")
#                   looks at request.method and rewrites request['REQUEST_METHOD'] (HTML-form `_method` override);
#   kind 'forward'  a handler serves the application again with a copy of its environ whose REQUEST_METHOD / PATH_INFO
#                   were rewritten (internal forward); the forwarded environ is a request of its own.
# In both the expected answer is the independent oracle (spec select + dispatch on the model table) applied to the
# REWRITTEN verb (and path); clauses K1/K2/K3 as above, reported with level 'app+hook' / 'app+forward'.
PAIRS = [['POST', 'DELETE'], ['POST', 'delete'], ['POST', 'put'], ['POST', 'PUT'], ['POST', 'GET'], ['post', 'get'],
         ['POST', 'HEAD'], ['POST', 'Head'], ['POST', 'PATCH'], ['POST', 'any'], ['POST', 'POST'], ['GET', 'POST'],
         ['GET', 'pOsT'], ['GET', 'HEAD'], ['GET', 'put'], ['GET', 'OPTIONS'], ['GET', ''], ['get', 'Head'],
         ['HEAD', 'GET'], ['HEAD', 'POST'], ['Head', 'post'], ['HEAD', 'ANY'], ['PUT', 'GET'], ['put', 'POST'],
         ['put', 'head'], ['DELETE', 'GET'], ['OPTIONS', 'pOsT'], ['PATCH', 'put'], ['ANY', 'GET'], ['any', 'head'],
         ['', 'POST'], ['', 'GET']]
PAIRS_404 = [['POST', 'GET'], ['GET', 'post'], ['HEAD', 'put']]
ARRIVE = ['POST', 'GET', 'head', 'put', 'DELETE']
TARGETS = ['GET', 'get', 'POST', 'pOsT', 'HEAD', 'Head', 'put', 'PUT', 'DELETE', 'ANY', 'OPTIONS', '']


def _rewrite_cases(tier, seed):
    subsets = list(_subsets(METHODS))
    vias = ['router', 'app', 'deco', 'short']
    k = 0
    # routes /r and /r/:x: all 32 tables on /r x 4 tables on /r/:x (and mirrored), every hook flavour in turn
    for s0 in subsets:
        for s1 in SOME_TABLES:
            k += 1
            base = _case('two', _base_ops(0, s0) + _base_ops(1, s1))
            yield dict(base, kind='hook', pairs=PAIRS, read=k % 3)
            yield dict(base, kind='hook', pairs=PAIRS[(k % 4)::4], read=(k + 1) % 3)
            yield dict(base, kind='forward', arrive=ARRIVE, targets=TARGETS, copy='copy')
            if k % 4 == 0:
                yield dict(base, kind='forward', arrive=ARRIVE[:2], targets=TARGETS, copy='fresh')
    for s1 in subsets:
        k += 1
        base = _case('two', _base_ops(1, s1) + _base_ops(0, ['GET', 'put']))
        yield dict(base, kind='hook', pairs=PAIRS, read=1 + k % 2)
        yield dict(base, kind='forward', arrive=ARRIVE, targets=TARGETS, copy='copy')
    # tables left behind by a follow-up op (overwrite, refused re-add, removal)
    for s0 in subsets[::2]:
        for fu in _followups(0, s0)[1::2]:
            k += 1
            base = _case('two', _base_ops(0, s0) + _base_ops(1, ['POST', 'ANY']) + fu)
            if k % 2:
                yield dict(base, kind='hook', pairs=PAIRS[(k % 2)::2], read=1)
            else:
                yield dict(base, kind='forward', arrive=ARRIVE[:3], targets=TARGETS[(k % 4) // 2::2], copy='copy')
    # the other rule sets: 8 x 8 tables, registration API and flavour varied
    for rs, d in RULE_SETS.items():
        if rs == 'two':
            continue
        nr = len(d['rules'])
        for s0 in EIGHT:
            for s1 in EIGHT:
                k += 1
                tabs = [s0, s1] + ([EIGHT[(k + 3) % 8]] if nr == 3 else [])
                fl = [S.FLAVOURS[(k + i) % 3] for i in range(nr)]
                ops = []
                for ri in range(nr):
                    ops += _base_ops(ri, tabs[ri], vias[(k + ri) % 4])
                base = _case(rs, ops, fl)
                if k % 2:
                    yield dict(base, kind='hook', pairs=PAIRS[(k % 4) // 2::2], read=1 + (k // 2) % 2)
                else:
                    yield dict(base, kind='forward', arrive=ARRIVE[:3], targets=TARGETS[(k % 4) // 2::2], copy='copy')
    # seeded random rule sets and histories (the generator of part C), alternating hook / forward
    n = 0
    for c in _random_cases(random.Random(seed * 7919 + 5), 120 if tier == 'quick' else 3000):
        n += 1
        c = dict(c, each=0)
        if n % 2:
            yield dict(c, kind='hook', pairs=PAIRS[(n % 4) // 2::2], read=1 + (n // 2) % 2)
        else:
            yield dict(c, kind='forward', arrive=ARRIVE[:3], targets=TARGETS[(n % 4) // 2::2], copy='copy')


def _wsgi_path(path):
    return path.encode('utf8').decode('latin1')


def _interpret(res, calls):
    """The answer of one pass through Ombott.__call__ in the uniform shape of _router_common (kwargs dropped)."""
    if res.exc is not None:
        return ('exc', repr(res.exc))
    code = res.code
    if code == 200:
        if len(calls) != 1:
            return ('exc', 'status 200 but %d handler calls' % len(calls))
        return ('ok', calls[0][0])
    if calls:
        return ('exc', 'status %s but a handler ran' % code)
    if code == 404:
        return ('404',)
    if code == 405:
        allow = res.header_all('Allow')
        return ('405', sorted(x.strip().upper() for v in allow for x in v.split(',') if x.strip()))
    return ('exc', 'status %s: %s' % (res.status, res.errors[-300:]))


def _rewrite_failure(level, exp, obs, **det):
    det = dict(det, level=level, expected=exp, observed=obs)
    if exp[0] == '404' or obs[0] == '404':
        return fail('K3.split', **det)
    if exp[0] == 'ok':
        return fail('K1.dispatch', **det)
    return fail('K2.allow', **det)


def _run_rewrite_case(case):
    import ombott
    from bounded.common import make_environ, serve
    app = ombott.Ombott()
    log = []
    plan = {}
    rules = [r for r, _f in case['rules']]
    texts = [S.render(r, f) for r, f in case['rules']]
    toks = [S.tokens(r) for r in rules]
    handlers = {}
    tables = {}

    def new_handler(hid):
        def handler(**kw):
            log.append((hid, kw))
            fw = plan.pop('forward', None)
            if fw is not None:                      # internal forward: serve the application again
                outer = log[:]
                del log[:]
                if fw['copy'] == 'copy':
                    env = dict(app.request.environ)         # shallow copy of the environ of the current request
                else:
                    env = make_environ('/', 'GET')
                env['REQUEST_METHOD'] = fw['verb']
                env['PATH_INFO'] = _wsgi_path(fw['path'])
                plan['inner'] = _interpret(serve(app, env), log[:])
                log[:] = outer
            return 'ok'
        handler.hid = hid
        return handler

    def override():
        if 'verb' not in plan:
            return
        request = app.request
        if plan['read']:
            plan['seen'] = request.method           # the override pattern looks at the verb first
        request['REQUEST_METHOD'] = plan['verb']
        if plan['read'] == 2:
            plan['seen_after'] = request.method

    if case['kind'] == 'hook':
        app.add_hook('before_request', override)
    for step, op in enumerate(case['ops']):
        f = _apply_op(app, op, step, texts, toks, tables, handlers, new_handler)
        if f:
            return f
    table_txt = {'/'.join(map(str, key)): v for key, v in tables.items()}

    if case['kind'] == 'hook':
        for path in case['paths']:
            matched = _expected(rules, toks, tables, path, 'GET')[0] != ('404',)
            for v0, v1 in (case['pairs'] if matched else PAIRS_404):
                exp, _key = _expected(rules, toks, tables, path, v1)
                if exp is None:
                    continue
                plan.clear()
                plan.update(verb=v1, read=case['read'])
                del log[:]
                obs = _interpret(serve(app, make_environ(path, v0)), log[:])
                if obs != exp:
                    return _rewrite_failure('app+hook', exp, obs, path=path, arrived_as=v0, rewritten_to=v1,
                                            hook_reads_method=case['read'], table=table_txt)
        return None

    # kind 'forward'
    arrivals = []
    for path0 in case['paths']:
        for v0 in case['arrive']:
            exp0, _key = _expected(rules, toks, tables, path0, v0)
            if exp0 is not None and exp0[0] == 'ok':
                arrivals.append((path0, v0, exp0))
    arrivals = arrivals[:2] + arrivals[-2:] if len(arrivals) > 4 else arrivals
    for path0, v0, exp0 in arrivals:
        for path1 in case['paths']:
            matched = _expected(rules, toks, tables, path1, 'GET')[0] != ('404',)
            for v1 in (case['targets'] if matched else case['targets'][:2]):
                exp, _key = _expected(rules, toks, tables, path1, v1)
                if exp is None:
                    continue
                plan.clear()
                plan['forward'] = dict(verb=v1, path=path1, copy=case['copy'])
                del log[:]
                res = serve(app, make_environ(path0, v0))
                det = dict(arrived=[path0, v0], forwarded=[path1, v1], environ=case['copy'], table=table_txt)
                if 'inner' not in plan:
                    # the arrival itself is an ordinary request (clauses above); without it there is nothing to forward
                    obs0 = _interpret(res, log[:])
                    return _rewrite_failure('app', exp0, obs0 if obs0 != exp0 else ('exc', 'handler did not forward'), **det)
                obs = plan['inner']
                if obs != exp:
                    return _rewrite_failure('app+forward', exp, obs, **det)
    return None


FINDINGS = {}
