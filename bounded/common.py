"""Engine C support library (bounded run-time contract checking of the REAL code).

Runs under /venv/bin/python (the interpreter of the repository's baseline), stdlib only.
Nothing here re-implements ombott: helpers only build WSGI environs, scripted input
streams and collect what the real application hands to the server.
"""
import io
import os
import sys

REPO = os.environ.get('VERIF_REPO', '/repo')


def use_repo():
    """Make `import ombott` resolve to REPO (the tree under check)."""
    if sys.path[0] != REPO:
        sys.path.insert(0, REPO)
    for name in list(sys.modules):
        if name == 'ombott' or name.startswith('ombott.'):
            mod = sys.modules[name]
            f = getattr(mod, '__file__', '') or ''
            if not f.startswith(REPO + os.sep):
                del sys.modules[name]


class FragStream:
    """wsgi.input whose read(n) answers according to a fragmentation script.

    script: list of ints (max bytes to answer for the k-th read; 0 or None = answer
    everything asked); after the script is exhausted `tail` (same meaning) is used.
    The stream obeys the server side of PEP 3333: it returns a prefix of the remaining
    bytes, at most n bytes, and b'' only when n == 0 or nothing is left.
    Records every call in .asked (n) and .answered (len) and the furthest byte handed out.
    """

    def __init__(self, data: bytes, script=(), tail=None):
        self.data = bytes(data)
        self.pos = 0
        self.script = list(script)
        self.tail = tail
        self.k = 0
        self.asked = []
        self.answered = []

    def read(self, n=-1):
        if n is None or n < 0:
            n = len(self.data) - self.pos
        lim = self.script[self.k] if self.k < len(self.script) else self.tail
        self.k += 1
        take = n if not lim else min(n, lim)
        part = self.data[self.pos:self.pos + take]
        self.pos += len(part)
        self.asked.append(n)
        self.answered.append(len(part))
        return part

    def readline(self, *a):  # pragma: no cover - not used by ombott
        raise AssertionError('readline is not used by ombott')

    @property
    def consumed(self):
        return self.pos


def make_environ(path='/', method='GET', query='', body=None, headers=None,
                 content_type=None, content_length='auto', chunked=False,
                 stream=None, extra=None, errors=None):
    """A PEP 3333 environ. PATH_INFO is given as the *text* the client meant; it is
    stored the WSGI way (UTF-8 bytes seen as Latin-1) unless `path` is bytes, in which
    case the raw bytes are decoded as Latin-1 verbatim (lets a case send undecodable paths)."""
    if isinstance(path, bytes):
        path_info = path.decode('latin1')
    else:
        path_info = path.encode('utf8').decode('latin1')
    env = {
        'REQUEST_METHOD': method,
        'SCRIPT_NAME': '',
        'PATH_INFO': path_info,
        'QUERY_STRING': query,
        'SERVER_NAME': 'localhost',
        'SERVER_PORT': '80',
        'SERVER_PROTOCOL': 'HTTP/1.1',
        'wsgi.version': (1, 0),
        'wsgi.url_scheme': 'http',
        'wsgi.errors': errors if errors is not None else io.StringIO(),
        'wsgi.multithread': True,
        'wsgi.multiprocess': False,
        'wsgi.run_once': False,
    }
    if stream is None:
        stream = FragStream(body or b'')
    env['wsgi.input'] = stream
    if content_type is not None:
        env['CONTENT_TYPE'] = content_type
    if chunked:
        env['HTTP_TRANSFER_ENCODING'] = 'chunked'
    elif content_length == 'auto':
        if body is not None:
            env['CONTENT_LENGTH'] = str(len(body))
    elif content_length is not None:
        env['CONTENT_LENGTH'] = str(content_length)
    for k, v in (headers or {}).items():
        env['HTTP_' + k.upper().replace('-', '_')] = v
    if extra:
        env.update(extra)
    return env


class Served:
    """What the server saw for one request."""
    __slots__ = ('calls', 'status', 'headers', 'body', 'chunks', 'exc', 'errors',
                 'result_type', 'closed_result', 'exc_info_calls', 'environ')

    def header(self, name, default=None):
        vals = self.header_all(name)
        return vals[0] if vals else default

    def header_all(self, name):
        name = name.lower()
        return [v for k, v in (self.headers or []) if k.lower() == name]

    @property
    def code(self):
        try:
            return int(str(self.status).split()[0])
        except Exception:
            return None

    def as_dict(self):
        return dict(calls=self.calls, status=self.status, headers=self.headers,
                    body=self.body.decode('latin1') if self.body is not None else None,
                    exc=repr(self.exc) if self.exc else None, errors=self.errors)


def serve(app, environ, consume=True, close=True):
    """Call the real application the way a WSGI server does and record everything."""
    s = Served()
    s.calls = 0
    s.status = s.headers = None
    s.exc = None
    s.exc_info_calls = 0
    s.chunks = []
    s.body = None
    s.closed_result = False
    s.environ = environ

    def start_response(status, headers, exc_info=None):
        s.calls += 1
        if exc_info is not None:
            s.exc_info_calls += 1
        s.status = status
        s.headers = list(headers)
        return lambda data: None

    try:
        result = app(environ, start_response)
        s.result_type = type(result).__name__
        if consume:
            for chunk in result:
                s.chunks.append(chunk)
            if all(isinstance(c, bytes) for c in s.chunks):
                s.body = b''.join(s.chunks)
        if close and hasattr(result, 'close'):
            result.close()
            s.closed_result = True
    except BaseException as e:  # noqa - recorded, the contract decides
        if isinstance(e, (KeyboardInterrupt, SystemExit)):
            raise
        s.exc = e
        s.result_type = None
    err = environ.get('wsgi.errors')
    s.errors = err.getvalue() if hasattr(err, 'getvalue') else ''
    return s


def chunk_encode(pieces, hex_fmt='{:x}', ext='', trailer=b''):
    """Chunked transfer encoding of the given payload pieces (spec-side encoder)."""
    out = []
    for p in pieces:
        assert len(p) > 0
        out.append(hex_fmt.format(len(p)).encode() + ext.encode('latin1') + b'\r\n' + p + b'\r\n')
    out.append(b'0' + b'\r\n' + trailer + b'\r\n')
    return b''.join(out)


def fail(clause, **kw):
    """A contract failure record (JSON-serialisable)."""
    d = {'clause': clause}
    for k, v in kw.items():
        d[k] = jsonable(v)
    return d


def jsonable(v):
    if isinstance(v, bytes):
        return {'__bytes__': v.decode('latin1')}
    if isinstance(v, (str, int, float, bool)) or v is None:
        return v
    if isinstance(v, dict):
        return {str(k): jsonable(x) for k, x in v.items()}
    if isinstance(v, (list, tuple)):
        return [jsonable(x) for x in v]
    return repr(v)


def unjson(v):
    if isinstance(v, dict):
        if set(v) == {'__bytes__'}:
            return v['__bytes__'].encode('latin1')
        return {k: unjson(x) for k, x in v.items()}
    if isinstance(v, list):
        return [unjson(x) for x in v]
    return v
