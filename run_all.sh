#!/bin/bash
# run every registered check (quick by default) on /repo and print one line each
T=${1:-quick}
cd /verif
for p in $(python3 -c "import json;print(' '.join(c['property_id'] for c in json.load(open('MANIFEST.json'))['checks']))"); do
  s=$(date +%s); out=$(timeout 3000 python3-vt check.py $p --tier $T 2>&1); rc=$?; e=$(( $(date +%s) - s ))
  echo "$p rc=$rc ${e}s $(echo "$out" | grep -c KNOWN-FINDING) known | $(echo "$out" | tail -1 | cut -c1-150)"
done
