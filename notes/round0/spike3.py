import z3, time, subprocess, tempfile, os
S=z3.StringSort()
def chk(name,hyps,goal,timeout=20000):
    s=z3.Solver(); s.set('timeout',timeout); s.add(*hyps); s.add(z3.Not(goal))
    t=time.time(); r=s.check(); dt=time.time()-t
    print(f'z3   {name:46} {"PROVED" if r==z3.unsat else r} {dt:.2f}s')
    if r!=z3.unsat:
        # try cvc5 CLI
        smt='(set-logic ALL)\n'+s.to_smt2().replace('(set-info :status unknown)','')
        f=tempfile.NamedTemporaryFile('w',suffix='.smt2',delete=False); f.write(smt); f.close()
        t=time.time()
        try: out=subprocess.run(['/usr/bin/cvc5','--strings-exp','--tlimit=20000',f.name],capture_output=True,text=True).stdout.strip()
        except Exception as e: out=str(e)
        print(f'cvc5 {name:46} {out[:40]} {time.time()-t:.2f}s'); os.unlink(f.name)
P,acc,spec,prt=z3.Strings('P acc spec prt'); cidx,clen,k=z3.Ints('cidx clen k')
CR=z3.StringVal('\r')
def sub(s,a,b): return z3.SubString(s,a,b-a)
I=lambda acc,spec,cidx,clen,k: z3.And(0<=cidx,cidx<=k,clen==k-cidx,spec==z3.Concat(acc,sub(P,cidx,k)))
c=z3.SubString(P,k,1)
base=[0<=k,k<z3.Length(P),I(acc,spec,cidx,clen,k)]
# non-CR step
chk('url: non-marker step', base+[c!=CR], I(acc,z3.Concat(spec,c),cidx,clen+1,k+1))
# CR step with clen>0
end=cidx+clen
chk('url: marker step clen>0', base+[c==CR,clen>0], I(z3.Concat(acc,sub(P,cidx,end),prt),z3.Concat(spec,prt),end+1,0,k+1))
chk('url: marker step clen==0', base+[c==CR,clen==0], I(z3.Concat(acc,prt),z3.Concat(spec,prt),cidx+1,0,k+1))
# exit: k==len(P): final append
chk('url: exit clen>0', [k==z3.Length(P),I(acc,spec,cidx,clen,k),clen>0], z3.Concat(acc,sub(P,cidx,cidx+clen))==spec)
chk('url: exit clen==0', [k==z3.Length(P),I(acc,spec,cidx,clen,k),clen==0], acc==spec)
# a mutant: cidx = end (forgetting +1)
chk('MUTANT url: marker step cidx=end', base+[c==CR,clen>0], I(z3.Concat(acc,sub(P,cidx,end),prt),z3.Concat(spec,prt),end,0,k+1))
# parse_qsl find-first loop: for idx,c in enumerate(qs[i:]): if c in '=&': break ; else idx+=1
qs=z3.String('qs'); i,idx,j=z3.Ints('i idx j')
def issep(ch): return z3.Or(ch==z3.StringVal('='),ch==z3.StringVal('&'))
m=z3.Int('m')
nosep=lambda lo,hi: z3.ForAll([m],z3.Implies(z3.And(lo<=m,m<hi),z3.Not(issep(z3.SubString(qs,m,1)))))
L=z3.Length(qs)
# invariant at iteration idx: no sep in qs[i:i+idx]; step
chk('qsl: find-first inv step',[0<=i,i<L,0<=idx,i+idx<L,nosep(i,i+idx),z3.Not(issep(z3.SubString(qs,i+idx,1)))],nosep(i,i+idx+1))
chk('qsl: key slice has no sep on break',[0<=i,i<L,0<=idx,i+idx<L,nosep(i,i+idx),issep(z3.SubString(qs,i+idx,1)),j==i+idx],
    z3.And(z3.Not(z3.Contains(sub(qs,i,j),z3.StringVal('='))), j<L, i<=j))
