import z3, time
BV=z3.BitVecSort(8); B=z3.SeqSort(BV)
def unit(b): return z3.Unit(z3.BitVecVal(b,8))
def lit(bs): 
    r=z3.Empty(B)
    for b in bs: r=z3.Concat(r,unit(b)) if not z3.is_app_of(r,z3.Z3_OP_SEQ_EMPTY) else unit(b)
    return r
HY=lit(b'-')
def chk(name,hyps,goal,timeout=20000):
    s=z3.Solver(); s.set('timeout',timeout); s.add(*hyps); s.add(z3.Not(goal))
    t=time.time(); r=s.check(); dt=time.time()-t
    print(f'{name:50} {"PROVED" if r==z3.unsat else r} {dt:.2f}s')
    if r==z3.sat: print('    model',s.model())
# python slice chunk[base:base+w] with 0<=base
def pyslice(s,a,b):  # 0<=a<=b
    L=z3.Length(s); a2=z3.If(a>L,L,a); b2=z3.If(b>L,L,b)
    return z3.SubSeq(s,a2,b2-a2)
# _eat_last_hyphen(chunk, base): returns ('none'|'pos'|'raise')
def eat_last_hyphen(chunk,base,width):
    cs=pyslice(chunk,base,base+width)
    kind=z3.If(z3.Length(cs)==0,0,z3.If(cs==HY,1,2))   # 0 None, 1 return base+1, 2 raise
    return kind
chunk,ext=z3.Consts('chunk ext',B); base=z3.Int('base')
for width in (2,1):
    k1=eat_last_hyphen(chunk,base,width); k2=eat_last_hyphen(z3.Concat(chunk,ext),base,width)
    # prefix-stability: decisive verdict on a prefix is the verdict on any extension
    chk(f'_eat_last_hyphen prefix-stable width={width}',[base>=0],z3.Implies(k1!=0,k1==k2))
