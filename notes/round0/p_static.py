import io, sys, os, tempfile, builtins, time, email.utils
import ombott
from ombott import static_file, _Globals, Ombott
from ombott.static_stream import get_first_range, _file_iter_range
tmp=tempfile.mkdtemp(prefix='probe_static_')
os.makedirs(tmp+'/root/sub'); os.makedirs(tmp+'/rootsib'); 
open(tmp+'/root/in.txt','wb').write(b'INSIDE'); open(tmp+'/root/sub/in2.txt','wb').write(b'INSIDE2')
open(tmp+'/rootsib/decoy.txt','wb').write(b'DECOY'); open(tmp+'/above.txt','wb').write(b'ABOVE')
app=Ombott(); 
def setenv(**kw):
    e={'REQUEST_METHOD':'GET','PATH_INFO':'/'}; e.update(kw)
    app.request.__init__(e); app.response.__init__(); _Globals.request=app.request
opened=[]
orig_open=builtins.open
def rec_open(f,*a,**k): opened.append(f); return orig_open(f,*a,**k)
import ombott.static_stream as ss
ss.open=rec_open
setenv()
for root in [tmp+'/root',tmp+'/root/',tmp+'/root//', os.path.relpath(tmp+'/root')]:
    for name in ['in.txt','/in.txt','sub/in2.txt','sub/../in.txt','../above.txt','../rootsib/decoy.txt','..\\above.txt','sub/../../above.txt','/'+tmp+'/above.txt',tmp+'/above.txt','//etc/passwd','./in.txt','sub//in2.txt','..','','.','../root/in.txt','../rootsib/../root/in.txt', '\\..\\above.txt']:
        opened.clear()
        r=static_file(name,root)
        b=r.body.read() if hasattr(r.body,'read') else r.body
        if root==tmp+'/root' or opened and not os.path.realpath(opened[0]).startswith(os.path.realpath(tmp+'/root')+os.sep): print(repr(root[-8:]),repr(name),r.status_code,b[:10],[o[len(tmp):] for o in opened])
# symlink
os.symlink(tmp+'/above.txt', tmp+'/root/link.txt')
opened.clear(); r=static_file('link.txt',tmp+'/root'); print('symlink',r.status_code, r.body.read() if hasattr(r.body,'read') else r.body)
print('--- C17')
data=bytes(range(256))*10
open(tmp+'/root/d.bin','wb').write(data)
L=len(data)
for h in ['bytes=0-0','bytes=0-','bytes=-1','bytes=-0','bytes=-99999','bytes=5-2','bytes=2559-','bytes=2560-','bytes=2559-99999','bytes=0-9,20-29','bytes=','bytes=a-b','bytes=1-2-3','items=0-5','bytes= 1 - 5 ','bytes=+1-+5','bytes=1_0-2_0','xbytes=0-5','bytes=--5']:
    setenv(HTTP_RANGE=h)
    r=static_file('d.bin',tmp+'/root')
    body=b''.join(r.body) if r.status_code==206 else None
    hd=dict(r.headerlist)
    print(repr(h),r.status_code,hd.get('Content-Range'),hd.get('Content-Length'), (len(body), body==data[int(hd['Content-Range'].split()[1].split('-')[0]):int(hd['Content-Range'].split()[1].split('/')[0].split('-')[1])+1]) if body is not None else '')
open(tmp+'/root/empty.bin','wb').close()
for h in ['bytes=0-0','bytes=-1','bytes=0-']:
    setenv(HTTP_RANGE=h); r=static_file('empty.bin',tmp+'/root'); print('empty',h,r.status_code)
setenv(REQUEST_METHOD='HEAD',HTTP_RANGE='bytes=0-4'); r=static_file('d.bin',tmp+'/root'); print('HEAD range',r.status_code,dict(r.headerlist),repr(r.body))
setenv(REQUEST_METHOD='HEAD'); r=static_file('d.bin',tmp+'/root'); print('HEAD',r.status_code,dict(r.headerlist),repr(r.body))
mt=os.stat(tmp+'/root/d.bin').st_mtime
for d in [-1,0,1]:
    setenv(HTTP_IF_MODIFIED_SINCE=email.utils.formatdate(int(mt)+d,usegmt=True)); r=static_file('d.bin',tmp+'/root'); print('ims',d,r.status_code,dict(r.headerlist) if r.status_code==304 else '', repr(r.body)[:30])
setenv(HTTP_IF_MODIFIED_SINCE='garbage'); r=static_file('d.bin',tmp+'/root'); print('ims garbage',r.status_code)
# chunks bounded
class F(io.BytesIO):
    def read(self,n=-1): return super().read(min(n,3)) if n>=0 else super().read()
print([len(c) for c in _file_iter_range(F(data),5,20,maxread=8)], b''.join(_file_iter_range(F(data),5,20,maxread=8))==data[5:25])
import shutil; shutil.rmtree(tmp)
