import io, sys, os, tempfile, pickle
from ombott import Ombott, HTTPResponse, HTTPError, Response
from ombott.request_pkg.helpers import parse_qsl, FormsDict
from ombott.request_pkg import Request
from ombott.common_helpers import cookie_encode, cookie_decode
from urllib.parse import urlencode, quote_plus, quote
print('--- C15')
def rt(name,value,secret=None):
    rs=HTTPResponse()
    try: rs.set_cookie(name,value,secret=secret)
    except Exception as e: return ('set failed',type(e).__name__,str(e)[:60])
    sc=[v for k,v in rs.headerlist if k=='Set-Cookie'][0]
    cookie_hdr=sc.split(';')[0] if not sc.startswith(name+'="') else sc[:sc.index('"',len(name)+2)+1]
    rq=Request({'HTTP_COOKIE':cookie_hdr})
    return rq.get_cookie(name,secret=secret), sc
for n,v,s in [('a','plain',None),('a','with space; semi, comma "q" \\',None),('a','é',None),('a','€',None),('a','',None),('a',{'k':[1,2,('x',None)]},'sec'),('a','é€','sec'),('a','x','')]:
    print(n,repr(v),s,'->',rt(n,v,s))
enc=cookie_encode(('a',[1,2]),'k')
print(enc, cookie_decode(enc,'k'), cookie_decode(enc,'k2'))
loads_calls=[]
import ombott.common_helpers as ch
orig=pickle.loads
class P:
    @staticmethod
    def loads(b): loads_calls.append(b); return orig(b)
    dumps=staticmethod(pickle.dumps)
ch.pickle=P
n=0
for i in range(len(enc)):
    for repl in (b'A',b'B',b'',b'?'):
        t=enc[:i]+repl+enc[i+1:]
        if t==enc: continue
        try: r=cookie_decode(t,'k')
        except Exception as e: r=('EXC',type(e).__name__)
        if r is not None: n+=1; print('tamper',i,repl,r)
print('tamper accepted',n,'loads calls',len(loads_calls))
for t in [enc[:-1],enc[:10],b'!'+enc,enc+b'=', b'!?', b'!', b'', 'é'.encode('latin1')]:
    try: print(t[:20],cookie_decode(t,'k'))
    except Exception as e: print(t[:20],'EXC',type(e).__name__,e)
try: print('non-latin value', cookie_decode('€','k'))
except Exception as e: print('EXC',type(e).__name__)
print('--- C18')
def rtq(pairs):
    qs=urlencode(pairs)
    d=FormsDict(); parse_qsl(qs,setitem=d.__setitem__); return qs,dict(d), parse_qsl(qs)==pairs
for pairs in [[('a','1'),('b','2')],[('a','1'),('a','2'),('a','3')],[('k=&+% ','v=&+% é')],[('a',''),('b','')],[('é','€')],[('a','1'),('b','x'),('a','2')]]:
    print(rtq(pairs))
for raw in ['','&','&&','=','==','a','a=','=a','a&','a=1&','%','%zz=%','a=%e9','a==b','a=b=c&&d','+=+','a&b=1']:
    try: print(repr(raw),parse_qsl(raw))
    except Exception as e: print(repr(raw),'EXC',type(e).__name__)
rq=Request({'QUERY_STRING':'a=1&a=2&b=%E2%82%AC','wsgi.input':io.BytesIO(b'a=3&c=4'),'CONTENT_LENGTH':'7','CONTENT_TYPE':'application/x-www-form-urlencoded'})
print(rq.query, rq.forms, rq.params)
rq=Request({'QUERY_STRING':'','wsgi.input':io.BytesIO(b'b=%E2%82%AC&c=\xe2\x82\xac'),'CONTENT_LENGTH':'19','CONTENT_TYPE':'application/x-www-form-urlencoded'})
print(rq.forms)
