import z3, time
B = z3.SeqSort(z3.BitVecSort(8))
def chk(name, hyps, goal, timeout=20000):
    s=z3.Solver(); s.set('timeout',timeout); s.add(*hyps); s.add(z3.Not(goal))
    t=time.time(); r=s.check(); dt=time.time()-t
    print(f'{name:40} {"PROVED" if r==z3.unsat else r} {dt:.2f}s')
    if r==z3.sat:
        m=s.model(); print('   cex:', {str(d):m[d] for d in m.decls() if str(d) in ('CL','buff','rest','lp','part','delivered','stream','stream0')})
CL,buff,rest=z3.Ints('CL buff rest')
stream0,stream,delivered,part,stream2=z3.Consts('stream0 stream delivered part stream2',B)
L=z3.Length
inv=lambda d,s,r: z3.And(z3.Concat(d,s)==stream0, r==CL-L(d))
for fixed in (False,True):
    part_size=z3.If(rest<buff,rest,buff)
    hyps=[buff>=1, inv(delivered,stream,rest), rest>0,
          stream==z3.Concat(part,stream2), L(part)<=part_size, z3.Implies(L(part)==0, L(stream)==0), L(part)>0]
    rest2 = rest-(L(part) if fixed else part_size)
    chk(f'iter_body inv preserved fixed={fixed}', hyps, inv(z3.Concat(delivered,part),stream2,rest2))
# exit postcondition: delivered == prefix of stream0 of len min(CL,len(stream0)) (CL>=0)
part_size=z3.If(rest<buff,rest,buff)
post=z3.And(z3.PrefixOf(delivered,stream0), L(delivered)==z3.If(CL<L(stream0),CL,L(stream0)))
chk('exit via rest<=0 (with rest>=0 inv)', [CL>=0,buff>=1,inv(delivered,stream,rest),rest>=0,rest<=0], post)
chk('exit via EOF', [CL>=0,buff>=1,inv(delivered,stream,rest),rest>0,L(stream)==0], post)
