import io, itertools
from ombott.request_pkg.body_mixin import _iter_body, _iter_chunked, _body_read
from ombott.request_pkg.errors import *

class Frag:
    """stream returning short reads according to pattern"""
    def __init__(self, data, pat):
        self.data=data; self.pos=0; self.pat=itertools.cycle(pat); self.calls=[]
    def read(self, n=-1):
        self.calls.append(n)
        k = min(n, next(self.pat)) if n>=0 else len(self.data)
        r = self.data[self.pos:self.pos+k]; self.pos+=len(r); return r

data = bytes(range(65,65+20))
# C04 full reads
f=Frag(data,[100]); print('full', b''.join(_iter_body(f.read,4,content_length=10)), f.calls)
f=Frag(data,[2]); out=b''.join(_iter_body(f.read,4,content_length=10)); print('short2', out, len(out), f.calls)
f=Frag(data,[1,3]); out=b''.join(_iter_body(f.read,4,content_length=10)); print('short13', out, len(out), f.calls)
# chunked
def enc(chunks, ext=b''):
    return b''.join(b'%x%s\r\n%s\r\n'%(len(c),ext,c) for c in chunks)+b'0\r\n\r\n'
e=enc([b'hello world!', b'abc'])
for pat in ([100],[1],[2],[3],[5,1]):
    f=Frag(e,pat)
    try:
        out=b''.join(_iter_chunked(f.read,4)); print(pat,'ok',out)
    except BodyParsingError as ex: print(pat,'ERR')
# shifted body under short reads?
e=enc([b'ab\r\n0\r\n\r\nXX'])
for pat in ([100],[2],):
    f=Frag(e,pat)
    try:
        out=b''.join(_iter_chunked(f.read,4)); print(pat,'ok',out, 'consumed',f.pos,len(e))
    except BodyParsingError as ex: print(pat,'ERR')
# negative / odd sizes
for raw in (b'-3\r\n\r\n0\r\n', b'+3\r\nabc\r\n0\r\n', b'0x3\r\nabc\r\n0\r\n', b'1_0\r\n'+b'a'*16+b'\r\n0\r\n', b' 3 \r\nabc\r\n0\r\n', b'3\r\nabc\r\n', b'3\r\nabcXX0\r\n', b'3\r\nabc\r\n0', b'3\r\nabc\r\n0\r', b'', b'\r\n', b'3;'+b'x'*50+b'\r\nabc\r\n0\r\n'):
    f=Frag(raw,[100])
    try:
        out=b''.join(_iter_chunked(f.read,8)); print(raw,'ok',out)
    except Exception as ex: print(raw,'EXC',type(ex).__name__)
