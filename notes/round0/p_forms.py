import io, sys, json
sys.path.insert(0,'/verif/notes/round0')
from ombott import Ombott
def env(path='/', method='GET', **kw):
    e={'REQUEST_METHOD':method,'PATH_INFO':path,'QUERY_STRING':'','SERVER_NAME':'h','SERVER_PORT':'80','wsgi.input':io.BytesIO(b''),'wsgi.errors':io.StringIO(),'wsgi.url_scheme':'http','SERVER_PROTOCOL':'HTTP/1.1'}
    e.update(kw); return e
def call(app, e):
    calls=[]
    def sr(status, headers, exc=None): calls.append((status,headers,exc is not None))
    try:
        out=app(e,sr); body=list(out)
        if hasattr(out,'close'): out.close()
    except Exception as ex:
        return ('ESCAPED',type(ex).__name__,str(ex)), calls
    return body, calls
def build(boundary, parts, epilogue=b''):
    out=[]
    for hdr,data in parts:
        out.append(b'--'+boundary+b'\r\n'+hdr+b'\r\n\r\n'+data+b'\r\n')
    out.append(b'--'+boundary+b'--'+epilogue)
    return b''.join(out)
def post(app, body, ctype, **kw):
    e=env('/p','POST',CONTENT_TYPE=ctype,CONTENT_LENGTH=str(len(body)),**kw); e['wsgi.input']=io.BytesIO(body)
    r=call(app,e); return r[1][0][0] if r[1] else r, (r[0][0][:300] if r[1] and r[1][0][0].startswith('200') else e['wsgi.errors'].getvalue()[-300:])
def mkapp(cfg=None):
    app=Ombott(cfg)
    @app.route('/p',method='POST')
    def p():
        rq=app.request
        forms={k:v for k,v in rq.forms.items()}
        files={k:([ (f.raw_filename,f.content_type,f.file.read().decode('latin1')) for f in (v if isinstance(v,list) else [v])]) for k,v in rq.files.items()}
        return json.dumps([forms,files])
    @app.route('/j',method='POST')
    def j(): return json.dumps(app.request.json)
    return app
app=mkapp()
b=b'BND'
cd=lambda s: ('Content-Disposition: form-data; '+s).encode()
tests={
 'basic':[(cd('name="a"'),b'1'),(cd('name="a"'),b'2'),(cd('name="f"; filename="x.txt"')+b'\r\nContent-Type: text/plain',b'data\r\n--BN')],
 'semi in name':[(cd('name="a;b"'),b'1')],
 'eq in name':[(cd('name="a=b"'),b'1')],
 'space name':[(cd('name="a b"'),b'1')],
 'utf8':[(cd('name="é"'),'ü'.encode())],
 'semi in filename':[(cd('name="f"; filename="x;y=z.txt"'),b'D')],
 'backslash fn':[(cd('name="f"; filename="C:\\\\dir\\\\x.txt"'),b'D')],
 'empty filename':[(cd('name="f"; filename=""'),b'D')],
 'dup files':[(cd('name="f"; filename="a"'),b'A'),(cd('name="f"; filename="b"'),b'B'),(cd('name="f"; filename="c"'),b'C')],
 'mixed dup':[(cd('name="f"'),b'text'),(cd('name="f"; filename="b"'),b'B')],
 'no name':[(b'Content-Disposition: form-data',b'1')],
 'no colon':[(b'Content-Disposition form-data',b'1')],
 'empty header value':[(b'X-Empty:',b'1')],
 'nonutf8 hdr':[(b'Content-Disposition: form-data; name="\xff"',b'1')],
 'nonutf8 value':[(cd('name="a"'),b'\xff\xfe')],
 'lowercase cd':[(b'content-disposition: form-data; name="a"',b'1')],
}
for k,parts in tests.items():
    print(k,'=>',post(app,build(b,parts),'multipart/form-data; boundary=BND'))
print('truncated',post(app,build(b,tests['basic'])[:-8],'multipart/form-data; boundary=BND'))
print('no closing',post(app,build(b,tests['basic'])[:60],'multipart/form-data; boundary=BND'))
print('garbage',post(app,b'garbage','multipart/form-data; boundary=BND'))
print('empty',post(app,b'','multipart/form-data; boundary=BND'))
print('no boundary',post(app,b'x','multipart/form-data'))
print('quoted boundary',post(app,build(b,tests['basic']),'multipart/form-data; boundary="BND"'))
print('urlenc',post(app,b'a=1&a=2&b=%zz&c','application/x-www-form-urlencoded'))
print('json form',post(app,b'[1,2]','application/json'))
print('json bad',post(app,b'{bad','application/json'))
def postj(body):
    e=env('/j','POST',CONTENT_TYPE='application/json',CONTENT_LENGTH=str(len(body))); e['wsgi.input']=io.BytesIO(body)
    r=call(app,e); return r[1][0][0], e['wsgi.errors'].getvalue()[-200:]
print('json bad /j',postj(b'{bad')); print('json nonutf8',postj(b'"\xff"'))
