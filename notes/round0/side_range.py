import sys
sys.path.insert(0,'/repo')
from typing import Optional, Tuple
import types
# import only the pure function without importing ombott.ombott (static_stream imports Globals)
import ast, pathlib
src=pathlib.Path('/repo/ombott/static_stream.py').read_text()
tree=ast.parse(src)
fn=[n for n in tree.body if isinstance(n,ast.FunctionDef) and n.name=='get_first_range'][0]
ns={}
exec(compile(ast.Module([fn],[]),'static_stream.py','exec'),ns)
_real=ns['get_first_range']
def get_first_range(header: str, maxlen: int) -> Optional[Tuple[int,int]]:
    """
    pre: maxlen >= 0
    post: __return__ is None or 0 <= __return__[0] < __return__[1] <= maxlen
    """
    return _real(header, maxlen)
def get_first_range_bad(header: str, maxlen: int) -> Optional[Tuple[int,int]]:
    """
    pre: maxlen >= 0
    post: __return__ is None or 0 < __return__[0] < __return__[1] <= maxlen
    """
    return _real(header, maxlen)
