import io, sys, itertools, random
from ombott.request_pkg.multipart import MultipartMarkup, FieldStorage
def build(boundary, parts, epilogue=b'', preamble=b''):
    out=[preamble]
    for hdr,data in parts:
        out.append(b'--'+boundary+b'\r\n'+hdr+b'\r\n\r\n'+data+b'\r\n')
    out.append(b'--'+boundary+b'--'+epilogue)
    return b''.join(out)
def parse(body, boundary, cuts):
    m=MultipartMarkup(boundary)
    prev=0
    for c in list(cuts)+[len(body)]:
        m.parse(body[prev:c]); prev=c
    return m.markups, (type(m.error).__name__ if m.error else None)
b=b'XbX'
parts=[(b'Content-Disposition: form-data; name="a"', b'va\r\n--Xb\r\n-lue--\r'),(b'Content-Disposition: form-data; name="f"; filename="x.bin"\r\nContent-Type: application/octet-stream', b"\r\n--XbY\r\n\r\n--Xb"),(b'Content-Disposition: form-data; name="e"', b'')]
body=build(b,parts,epilogue=b'\r\ntrailing')
ref=parse(body,b,[])
print(len(body), ref)
bad=0
for i in range(0,len(body)+1):
    r=parse(body,b,[i])
    if r!=ref:
        bad+=1; print('single cut',i,r) if bad<6 else None
print('single-cut mismatches',bad)
bad2=0; ex=[]
for i in range(0,len(body)+1):
    for j in range(i,len(body)+1):
        r=parse(body,b,[i,j])
        if r!=ref:
            bad2+=1
            if len(ex)<5: ex.append((i,j,r))
print('double-cut mismatches',bad2, ex[:3])
r=parse(body,b,range(1,len(body)))
print('bytewise equal', r==ref)
# prefixes
pb=0
for L in range(len(body)):
    pre=body[:L]; refp=parse(pre,b,[])
    for i in range(0,L+1):
        if parse(pre,b,[i])!=refp:
            pb+=1
            if pb<5: print('prefix',L,'cut',i,parse(pre,b,[i]),refp)
print('prefix mismatches',pb)
