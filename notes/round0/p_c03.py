import io, sys
sys.path.insert(0,'/verif/notes/round0')
from p_forms import env, call
from ombott import Ombott, HTTPResponse, HTTPError
print('--- C02')
app=Ombott()
app.route('/r','get',lambda:'get'); app.route('/r',['post','ANY'],lambda:'postany')
app.route('/g','GET',lambda:'g'); app.route('/a','ANY',lambda:'any'); app.route('/h',['HEAD','GET'],lambda:'hg'); app.route('/p','POST',lambda:'p')
for path,m in [('/r','GET'),('/r','get'),('/r','HEAD'),('/r','PUT'),('/g','HEAD'),('/g','POST'),('/a','HEAD'),('/p','HEAD'),('/p','GET'),('/p','any'),('/a','ANY'),('/zz','GET'),('/p','')]:
    b,c=call(app,env(path,m)); print(path,m,c[0][0],dict(c[0][1]).get('Allow'),b[:1] if c[0][0][0]=='2' else '')
app.router.resolve('/r').remove_method('GET'); print(call(app,env('/r','GET'))[0][:1], call(app,env('/r','HEAD'))[0][:1])
app.router.resolve('/r').remove_method(['POST','ANY']); b,c=call(app,env('/r','GET')); print('empty route',c[0][0],repr(dict(c[0][1]).get('Allow')))
print('--- C03')
class Closer:
    def __init__(s,it): s.it=iter(it); s.closed=0
    def __iter__(s): return s
    def __next__(s): return next(s.it)
    def close(s): s.closed+=1
class FL(io.BytesIO):
    closed_n=0
    def close(s): FL.closed_n+=1
def gen(items, exc_at=None):
    def g():
        for i,x in enumerate(items):
            if exc_at==i: raise RuntimeError('boom')
            yield x
    return g
kinds={
 'str':lambda:'héllo','bytes':lambda:b'abc','empty':lambda:'','none':lambda:None,'list-str':lambda:['a','b'],'list-bytes':lambda:[b'',b'a',b'b'],
 'list-empty':lambda:[], 'gen-str':gen(['','a','b']),'gen-bytes':gen([b'a',b'b']),'gen-exc0':gen([b'a'],0),'gen-resp':gen([HTTPResponse('R',201)]),'gen-err':gen([HTTPError(418,'tea')]),
 'ret-resp':lambda:HTTPResponse('body',202,X='y'),'ret-err':lambda:HTTPError(403,'no'),'dict':lambda:{'a':1},'int':lambda:5,'list-int':lambda:[1,2],'filelike':lambda:FL(b'filedata'),
 'nested':lambda:HTTPResponse(HTTPResponse(['x','y'],203),202),'204body':lambda:HTTPResponse('zzz',204),'304body':lambda:HTTPResponse('zzz',304),'100':lambda:HTTPResponse('zzz',100),
 'closer':lambda:Closer([b'a',b'b']), 'closer-empty':lambda:Closer([]), 'tuple':lambda:('a','b'), 'bytearray':lambda:bytearray(b'x'), 'mixed':lambda:['a',b'b'],'status-str':lambda:HTTPResponse('x','299 Custom Reason'),
}
for k,h in kinds.items():
    for m in ('GET','HEAD'):
        a=Ombott(); a.route('/x',['GET'],h)
        order=[]
        a.add_hook('before_request',lambda:order.append('b1')); a.add_hook('before_request',lambda:order.append('b2'))
        a.add_hook('after_request',lambda:order.append('a1')); a.add_hook('after_request',lambda:order.append('a2'))
        e=env('/x',m); b,c=call(a,e)
        okb = all(isinstance(x,bytes) for x in b) if isinstance(b,list) else b
        cl=dict(c[0][1]).get('Content-Length') if c else None
        print(f'{k:12} {m:4} calls={len(c)} {c[0][0] if c else None!s:28} CL={cl} bodylen={sum(map(len,b)) if okb is True else okb} hooks={"".join(order)}')
