import sys
sys.path.insert(0,'/verif/notes/round0')
from p_forms import env, call
from ombott import Ombott
def fresh():
    app=Ombott(); log=[]
    return app,log
def hit(app,log,path):
    log.clear(); b,c=call(app,env(path)); return c[0][0][:3], list(log)
app,log=fresh()
app.route('/a/b','GET',lambda:'ab'); app.route('/a/c','GET',lambda:'ac'); app.route('/a','GET',lambda:'a'); app.route('/x/:id/y','GET',lambda id:'xy')
app.on_route('/a',lambda p:log.append(('h/a',p))); app.on_route('/a/b',lambda p:log.append(('h/a/b',p))); app.on_route('/',lambda p:log.append(('h/',p)))
app.on_route('/x/:id',lambda p:log.append(('h/x/id',p)))
for p in ['/a/b','/a/c','/a','/x/5/y','/zz','/ab']: print(p,hit(app,log,p))
print('hooks idx',app.router.hooks.keys())
app.remove_route_hook('/a'); print('after remove hook /a:', hit(app,log,'/a/b'), hit(app,log,'/a'))
app.remove_route_hook('/a/b'); print('after remove hook /a/b:', hit(app,log,'/a/b'))
# hook on prefix-only node
app,log=fresh()
app.route('/p/q/r','GET',lambda:'pqr'); app.route('/p/q/s','GET',lambda:'pqs')
app.on_route('/p/q',lambda p:log.append(('h/p/q',p)))
print(hit(app,log,'/p/q/r'))
app.remove_route_hook('/p/q'); print('prefix-only hook removed?',hit(app,log,'/p/q/r'), app.router.hooks.keys())
# hook on 'pa' splitting node
app,log=fresh()
app.route('/park','GET',lambda:'park'); app.on_route('/pa',lambda p:log.append(('h/pa',p)))
print('mid-segment hook',hit(app,log,'/park'))
# route removal where hook sits on same node
app,log=fresh()
app.route('/m/n','GET',lambda:'mn'); app.on_route('/m/n',lambda p:log.append(('h/m/n',p)))
app.remove_route('/m/n'); print('route removed, hook idx',app.router.hooks.keys(), hit(app,log,'/m/n'))
app.route('/m/n','GET',lambda:'mn2'); print('re-added: hook fires?',hit(app,log,'/m/n'))
# remove by prefix wildcard
app,log=fresh()
for r in ['/w/a','/w/b','/wz','/v']: app.route(r,'GET',lambda r=r:r)
app.remove_route('/w/*'); print({p:hit(app,log,p)[0] for p in ['/w/a','/w/b','/wz','/v']}, list(app.routes))
app.remove_route('/w*'); print({p:hit(app,log,p)[0] for p in ['/w/a','/w/b','/wz','/v']}, list(app.routes))
# remove then re-add, merge
app,log=fresh()
for r in ['/ab','/abc','/abd']: app.route(r,'GET',lambda r=r:r)
app.remove_route('/ab'); print({p:hit(app,log,p)[0] for p in ['/ab','/abc','/abd']}); app.remove_route('/abc'); print({p:hit(app,log,p)[0] for p in ['/ab','/abc','/abd']}, app.router.radidict.root)
app.route('/ab','GET',lambda:'ab'); print({p:hit(app,log,p)[0] for p in ['/ab','/abc','/abd']})
# removing nonexistent
try: app.remove_route('/nonexistent'); print('remove nonexistent ok')
except Exception as e: print('remove nonexistent EXC',type(e).__name__,e)
try: app.remove_route(name='nope')
except Exception as e: print('remove unknown name EXC',type(e).__name__,e)
