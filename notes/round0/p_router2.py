from ombott.router import RadiRouter, Route
def mk(rules):
    r=RadiRouter()
    for i,rule in enumerate(rules):
        try: r.add(rule,'GET',(lambda i=i,rule=rule:(i,rule)))
        except Exception as e: print('  add fail',rule,type(e).__name__,str(e)[:100])
    return r
def res(r,p,m='GET'):
    try:
        ep,err=r.resolve(p,m)
        if ep: return ('OK',ep[0].handler()[1],ep[1])
        return ('ERR',err[0], err[2] if err[0]==405 else None)
    except Exception as e:
        return ('EXC',type(e).__name__,str(e)[:80])
r=mk(['/a/:x/b','/a-<p:re(.*)>','/e/<p:re(x*)>/z'])
for p in ['/a//b','/a-','/a-q','/e//z','/e/xx/z','/e/y/z']: print(repr(p),res(r,p))
print('--- url roundtrip')
for rule,kw,args in [('/path/{pth:path()}/end',dict(pth='a/b'),()),('/f/<v:float>',dict(v=1e22),()),('/f/<v:float>',dict(v=1e-8),()),('/f/<v:float>',dict(v=1.5),()),('/i/<v:int>/x',dict(v=-7),()),('/a/<x>-<y:int>/z',dict(x='q',y=3),()),('/r/<re(to.)>/b',{},('tom',)),('/p/<p:path>',dict(p='a/b'),())]:
    rt=Route(rule)
    try: u=rt.url(*args,**kw); print(rule,kw,args,'->',repr(u), res(mk([rule]),'/'+u))
    except Exception as e: print(rule,kw,'EXC',type(e).__name__,e)
print('--- what floats does matching produce')
r=mk(['/f/<v:float>'])
for p in ['/f/10000000000000000000000','/f/0.00000001','/f/-0','/f/1.50']:
    x=res(r,p); print(p,x)
    if x[0]=='OK':
        u=Route('/f/<v:float>').url(**x[2]); print('   url',u,res(r,'/'+u))
print('--- test file rules')
import tests.router.test_route as t
print(open(t.__file__).read())
