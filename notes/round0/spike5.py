import z3, time
BV=z3.BitVecSort(8)
def bv(c): return z3.BitVecVal(c,8)
CR,LF,SEM=bv(13),bv(10),bv(59)
def chk(name,hyps,goal,timeout=30000):
    s=z3.Solver(); s.set('timeout',timeout); s.add(*hyps); s.add(z3.Not(goal))
    t=time.time(); r=s.check(); dt=time.time()-t
    print(f'z3   {name:52} {"PROVED" if r==z3.unsat else r} {dt:.2f}s')
    if r==z3.sat: print('   ',s.model())
D=z3.Array('D',z3.IntSort(),BV); N=z3.Int('N')
BUF=z3.Array('BUF',z3.IntSort(),BV); bl=z3.Int('bl')
p0,t,h,e=z3.Ints('p0 t h e'); m=z3.Int('m')
seen_r,seen_sem=z3.Bools('seen_r seen_sem')
at=lambda i: D[i]
def ishex(x): return z3.Or(z3.And(z3.UGE(x,bv(48)),z3.ULE(x,bv(57))),z3.And(z3.UGE(x,bv(65)),z3.ULE(x,bv(70))),z3.And(z3.UGE(x,bv(97)),z3.ULE(x,bv(102))))
legal=[p0>=0,h>=1,e>=0,p0+h+e+2<=N,
       z3.ForAll([m],z3.Implies(z3.And(0<=m,m<h),ishex(at(p0+m)))),
       z3.Implies(e>0,at(p0+h)==SEM),
       at(p0+h+e)==CR, at(p0+h+e+1)==LF,
       z3.ForAll([m],z3.Implies(z3.And(h<=m,m<h+e),z3.Not(z3.And(at(p0+m)==CR,at(p0+m+1)==LF))))]
def Inv(t,seen_r,seen_sem,BUF,bl):
    return z3.And(0<=t,t<=h+e+1,
        seen_r==z3.And(t>0,at(p0+t-1)==CR),
        seen_sem==z3.And(e>0,t>h),
        bl==z3.If(t<h,t,h),
        z3.ForAll([m],z3.Implies(z3.And(0<=m,m<bl),BUF[m]==at(p0+m))))
c=at(p0+t)
pre=legal+[Inv(t,seen_r,seen_sem,BUF,bl)]
brk=z3.And(seen_r,c==LF)
chk('chunked hdr: break only at end',pre+[brk],t==h+e+1)
chk('chunked hdr: at end must break',pre+[t==h+e+1],brk)
nr=(c==CR)
new_sem=z3.If(seen_sem,seen_sem,c==SEM)
appended=z3.And(z3.Not(seen_sem),z3.Not(nr),z3.Not(c==SEM))
nBUF=z3.If(appended,z3.Store(BUF,bl,c),BUF); nbl=z3.If(appended,bl+1,bl)
chk('chunked hdr: inv preserved',pre+[z3.Not(brk)],Inv(t+1,nr,new_sem,nBUF,nbl))
chk('chunked hdr: buf==hex at break',pre+[brk],z3.And(bl==h,z3.ForAll([m],z3.Implies(z3.And(0<=m,m<h),BUF[m]==at(p0+m)))))
# mutant: forget to skip CR  (append even when nr)
appended2=z3.And(z3.Not(seen_sem),z3.Not(c==SEM))
nBUF2=z3.If(appended2,z3.Store(BUF,bl,c),BUF); nbl2=z3.If(appended2,bl+1,bl)
chk('MUTANT chunked hdr: CR appended',pre+[z3.Not(brk)],Inv(t+1,nr,new_sem,nBUF2,nbl2))
def inst(q_body, val): return q_body(val)
hexq=lambda m: z3.Implies(z3.And(0<=m,m<h),ishex(at(p0+m)))
extq=lambda m: z3.Implies(z3.And(h<=m,m<h+e),z3.Not(z3.And(at(p0+m)==CR,at(p0+m+1)==LF)))
chk('chunked hdr: break only at end (+inst t-1)',pre+[brk,hexq(t-1),extq(t-1)],t==h+e+1)
# quantifier-free alternative: use pattern-friendly formulation with function index
