import io, sys, os, tempfile
from ombott import Ombott, HTTPResponse, HTTPError, Response
from ombott.response import BaseResponse
from ombott.request_pkg.helpers import parse_qsl, FormsDict
from ombott.request_pkg import Request
from urllib.parse import urlencode, quote_plus
print('--- C14')
r=HTTPResponse()
for setter in ['item','append','setdefault','attr','ctor','ctor_kw','ctor_list']:
    for v in ['a\r\nX: y','a\nb','a\0b',b'bytes',['x\r\ny'],None,1.5,True]:
        try:
            rr=HTTPResponse()
            if setter=='item': rr.headers['X']=v
            elif setter=='append': rr.headers.append('X',v)
            elif setter=='setdefault': rr.headers.setdefault('X',v)
            elif setter=='attr': rr.content_type=v
            elif setter=='ctor': rr=HTTPResponse('',200,{'X':v})
            elif setter=='ctor_kw': rr=HTTPResponse('',200,X=v)
            elif setter=='ctor_list': rr=HTTPResponse('',200,[('X',v)])
            hl=rr.headerlist
            bad=[h for h in hl if any(c in str(h[1]) for c in '\r\n\0') or not isinstance(h[1],str)]
            print(setter,repr(v),'ACCEPTED', 'BAD!' if bad else '', [h for h in hl if h[0]!='Content-Type' or setter=='attr'])
        except Exception as e: print(setter,repr(v),'rejected',type(e).__name__)
rr=HTTPResponse('',304); rr.headers['content-length']='5'; rr.headers['Content-Length']='6'; rr.headers['Etag']='x'; print('304',rr.headerlist)
rr=HTTPResponse('',204); rr.headers['content-type']='t'; print('204',rr.headerlist)
rr=HTTPResponse(); rr.headers['X']='é€'; v=dict(rr.headerlist)['X']; print(repr(v), v.encode('latin1').decode('utf8'))
rr=HTTPResponse(); 
try: rr.headers['X']='\udc80'; print(rr.headerlist)
except Exception as e: print('surrogate',type(e).__name__)
rr=HTTPResponse(); rr.expires=0; print(rr.headerlist)
try: rr.expires='a\r\nb'; print('expires injected', rr.headerlist)
except Exception as e: print('expires',type(e).__name__)
