import io, sys, gc, weakref
from ombott import Ombott, HTTPResponse, HTTPError
def env(path='/', method='GET', **kw):
    e={'REQUEST_METHOD':method,'PATH_INFO':path,'QUERY_STRING':'','SERVER_NAME':'h','SERVER_PORT':'80','wsgi.input':io.BytesIO(b''),'wsgi.errors':io.StringIO(),'wsgi.url_scheme':'http','SERVER_PROTOCOL':'HTTP/1.1'}
    e.update(kw); return e
def call(app, e):
    calls=[]
    def sr(status, headers, exc=None): calls.append((status,headers,exc is not None))
    try:
        out=app(e,sr); body=list(out)
        if hasattr(out,'close'): out.close()
    except Exception as ex:
        return ('ESCAPED',type(ex).__name__,str(ex)), calls
    return body, calls
app=Ombott()
@app.route('/set')
def s():
    app.response.set_cookie('sid','SECRET'); app.response.headers['X-A']='1'; return 'ok'
@app.route('/plain')
def p(): return 'plain'
@app.route('/boom')
def b(): raise RuntimeError('x')
print(call(app,env('/set')))
print('bad path after set:',call(app,env('/\xff')))
print('plain:',call(app,env('/plain')))
print('404 <script>:',call(app,env('/<script>',QUERY_STRING='a=<b>&"x"',HTTP_HOST='h"><i>'))[0])
print('404 json:',call(app,env('/nope',HTTP_ACCEPT='application/json')))
print('boom json:',call(app,env('/boom',HTTP_ACCEPT='application/json'))[0][0][:200])
# fresh thread with undecodable path
import threading
res=[]
t=threading.Thread(target=lambda:res.append(call(Ombott(),env('/\xff')))); t.start(); t.join(); print('fresh thread bad path:',res[0][1][0][0] if res[0][1] else res)
app2=Ombott()
t=threading.Thread(target=lambda:res.append(call(app2,env('/\xff')))); t.start(); t.join(); print('other thread bad path:',res[1][1][0][0], res[1][0][0][:80])
