from ombott.router import RadiRouter, Route
from ombott.router.radirouter import Route
import traceback
def mk(rules):
    r=RadiRouter()
    for i,rule in enumerate(rules):
        try: r.add(rule,'GET',(lambda i=i,rule=rule:(i,rule)))
        except Exception as e: print('  add fail',rule,type(e).__name__,str(e)[:100])
    return r
def res(r,p,m='GET'):
    try:
        ep,err=r.resolve(p,m)
        if ep: return ('OK',ep[0].handler()[1],ep[1])
        return ('ERR',err[0], err[2] if err[0]==405 else None)
    except Exception as e:
        return ('EXC',type(e).__name__,str(e)[:80])
# param names shared pattern
r=mk(['/a/:x','/a/:y'])
print('shared pattern', res(r,'/a/1'), r.routes)
r=RadiRouter(); r.add('/a/:x','GET',lambda **k:('x',k)); r.add('/a/:y','POST',lambda **k:('y',k))
print(' get',r.resolve('/a/1','GET')[0][1],' post',r.resolve('/a/1','POST')[0][1])
# literal then wildcard backtracking
r=mk(['/foo/bar','/foo/:x','/foo/bar/baz','/:a/bar/qux'])
for p in ['/foo/bar','/foo/barx','/foo/ba','/foo/bar/qux','/foo/bar/baz','/foo//','/foo/','//foo/bar','/foo/bar//','/f%C3/x','/foo/\r','/foo/a\rb','/foo/é']:
    print(repr(p),res(r,p))
# int filter
r=mk(['/n/<id:int>','/n/<name>','/f/<v:float>','/p/<rest:path>','/r/<x:re([a-c]+)>/t', '/m/<a>-<b>'])
for p in ['/n/12','/n/-3','/n/12a','/n/abc','/f/1.5','/f/1.','/f/1e5','/p/a/b/c','/p/','/r/abc/t','/r/abd/t','/m/x-y','/m/x-y-z','/m/-']:
    print(repr(p),res(r,p))
