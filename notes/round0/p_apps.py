import io, sys, gc, weakref
sys.path.insert(0,'/verif/notes/round0')
from p_wsgi import env, call
from ombott import Ombott, HTTPResponse, HTTPError
import ombott
print('---C10')
A=Ombott(); B=Ombott()
seen={}
@B.route('/b')
def hb(): return 'B'
@A.route('/a')
def ha():
    before=A.request.path
    call(B, env('/b'))
    seen['after']=A.request.path
    A.response.headers['X-From']='A'
    return 'A:'+before
print(call(A,env('/a')), seen)
C=Ombott()
@C.route('/c')
def hc():
    p0=C.request.environ
    cp=C.request.copy()
    return 'same' if C.request.environ is p0 else 'DIFFERENT environ after copy'
print(call(C,env('/c')))
D=Ombott()
@D.route('/d')
def hd():
    p0=D.request.path
    Ombott()
    try: return 'path before %s after %s'%(p0,D.request.path)
    except Exception as e: return 'EXC '+repr(e)
print(call(D,env('/d')))
print('---C09 retention')
E=Ombott({'max_body_size':5})
@E.route('/e',method='POST')
def he(): return E.request.body.read()
class Env(dict): pass
refs=[]
import traceback
for i in range(200):
    e=Env(env('/e','POST',CONTENT_LENGTH='10')); e['wsgi.input']=io.BytesIO(b'0123456789')
    refs.append(weakref.ref(e))
    r=call(E,e)
    del e
gc.collect()
print(r[1][0][0], 'alive environs:',sum(1 for w in refs if w() is not None))
err=E.config.errors_map[ombott.request_pkg.errors.BodySizeError]
n=0; tb=err.__traceback__
while tb: n+=1; tb=tb.tb_next
print('tb chain length on shared error',n)
