"""MANIFEST.setup_cmd: nothing is compiled; verify the offline toolchain the checks need."""
import subprocess, sys
import z3, cvc5  # noqa
assert z3.get_version_string().startswith('5.'), z3.get_version_string()
for cmd in (['/venv/bin/python', '-c', 'import ombott'], ['/usr/bin/cvc5', '--version']):
    subprocess.run(cmd, check=True, capture_output=True)
print('setup ok: z3', z3.get_version_string())
