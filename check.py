#!/usr/bin/env python3-vt
"""check.py <Cxx> [--tier quick|thorough] [--seed N]      decide one property on /repo's current tree
   check.py --replay <file>                              re-run a recorded counterexample natively

Exit status: 0 property held on everything explored (KNOWN-FINDING lines allowed)
             1 violation (a line `VIOLATION property=<id> replay=<path>` is printed)
             2 undecided (solver unknown/timeout, code outside the modelled subset, missing function)
             3 the machinery itself failed
"""
import argparse
import importlib
import json
import os
import subprocess
import sys
import time
import traceback

HERE = os.path.dirname(os.path.abspath(__file__))
sys.path.insert(0, HERE)
sys.dont_write_bytecode = True
os.environ.setdefault('PYTHONDONTWRITEBYTECODE', '1')

REPO = os.environ.get('VERIF_REPO', '/repo')
VENV_PY = '/venv/bin/python'
JOBS = int(os.environ.get('VERIF_JOBS', str(min(16, os.cpu_count() or 1))))


def load_known():
    with open(os.path.join(HERE, 'known_findings.json')) as f:
        data = json.load(f)
    return data['findings']


def jsonable(v):
    from bounded.common import jsonable as j
    return j(v)


def write_replay(prop, name, payload):
    d = os.path.join(HERE, 'replays')
    os.makedirs(d, exist_ok=True)
    safe = ''.join(ch if ch.isalnum() or ch in '-_.' else '_' for ch in name)[:80]
    path = os.path.join(d, f'{prop}-{safe}.json')
    with open(path, 'w') as f:
        json.dump(payload, f, indent=1)
    return path


def run_bounded(prop, tier, seed, budget=0):
    out = os.path.join(HERE, 'replays', f'.bounded-{prop}-{os.getpid()}.json')
    os.makedirs(os.path.dirname(out), exist_ok=True)
    cmd = [VENV_PY, '-B', os.path.join(HERE, 'bounded', 'runner.py'), prop, '--tier', tier, '--seed', str(seed),
           '--jobs', str(JOBS), '--out', out]
    if budget:
        cmd += ['--budget', str(budget)]
    env = dict(os.environ, VERIF_REPO=REPO, PYTHONDONTWRITEBYTECODE='1')
    p = subprocess.run(cmd, capture_output=True, text=True, env=env)
    if p.returncode != 0 or not os.path.exists(out):
        if os.path.exists(out):
            res = json.load(open(out))
            os.unlink(out)
            raise RuntimeError('bounded runner crashed: ' + json.dumps(res.get('crash'))[:2000])
        raise RuntimeError(f'bounded runner failed rc={p.returncode}: {p.stderr[-2000:]}')
    res = json.load(open(out))
    os.unlink(out)
    return res


def replay_case_native(prop, case_json):
    """run one case through the bounded harness in a fresh interpreter; returns (failure|None, findings)"""
    d = os.path.join(HERE, 'replays')
    os.makedirs(d, exist_ok=True)
    tmp = os.path.join(d, f'.case-{os.getpid()}.json')
    with open(tmp, 'w') as f:
        json.dump({'case': case_json}, f)
    env = dict(os.environ, VERIF_REPO=REPO, PYTHONDONTWRITEBYTECODE='1')
    p = subprocess.run([VENV_PY, '-B', os.path.join(HERE, 'bounded', 'runner.py'), prop, '--replay-case', tmp],
                       capture_output=True, text=True, env=env)
    os.unlink(tmp)
    if p.returncode not in (0, 1):
        raise RuntimeError(f'replay crashed: {p.stderr[-1500:]}')
    r = json.loads(p.stdout)
    return r['failure'], r.get('findings', [])


def do_replay(path):
    rp = json.load(open(path))
    prop = rp['property']
    print(f"replay of {rp.get('source')} counterexample for {prop}: {rp.get('obligation') or rp.get('clause')}")
    if rp.get('case') is None:
        print('no concrete input was recorded (no-failing-input-found); solver output follows')
        print(rp.get('solver_output', ''))
        return 1
    harness = rp.get('harness_property', prop)
    failure, findings = replay_case_native(harness, rp['case'])
    print(json.dumps({'failure': failure, 'findings': findings}, indent=1))
    if failure:
        print(f'REPRODUCED on {REPO}')
        return 1
    print(f'NOT reproduced on {REPO} (the contract holds for this input now)')
    return 0


def main():
    ap = argparse.ArgumentParser()
    ap.add_argument('prop', nargs='?')
    ap.add_argument('--tier', default=os.environ.get('VERIF_TIER', 'quick'))
    ap.add_argument('--seed', type=int, default=int(os.environ.get('VERIF_SEED', '0')))
    ap.add_argument('--replay')
    ap.add_argument('--no-bounded', action='store_true')
    a = ap.parse_args()
    if a.replay:
        return do_replay(a.replay)
    if a.tier not in ('quick', 'thorough'):
        a.tier = 'quick'
    from vlib import registry, decide
    if a.prop not in registry.PROPS:
        print(f'unknown or unclaimed property {a.prop}')
        return 3
    return decide.run_property(a.prop, a.tier, a.seed, sys.modules[__name__], no_bounded=a.no_bounded)


if __name__ == '__main__':
    try:
        rc = main()
    except SystemExit:
        raise
    except BaseException:
        traceback.print_exc()
        rc = 3
    sys.exit(rc)
