"""Run a set of contracts against the repository source and summarise the obligations."""
import ast
import importlib
import json
import os
import sys
import time
import traceback

import z3

from .engine import Driver, Unsupported, loop_shapes
from . import solve


def module_globals_for(repo, relfile):
    """namespace of the real module (constants, exception classes) imported from the tree under check"""
    if sys.path[0] != repo:
        sys.path.insert(0, repo)
    for name in list(sys.modules):
        if name == 'ombott' or name.startswith('ombott.'):
            f = getattr(sys.modules[name], '__file__', '') or ''
            if not f.startswith(repo + os.sep):
                del sys.modules[name]
    modname = relfile[:-3].replace('/', '.')
    sys.dont_write_bytecode = True
    mod = importlib.import_module(modname)
    return dict(vars(mod))


def _load_decorators():
    p = os.path.join(os.path.dirname(os.path.dirname(os.path.abspath(__file__))), 'contracts', 'decorators.json')
    try:
        with open(p) as f:
            return json.load(f)
    except OSError:
        return {}


DECORATORS = _load_decorators()


def _load_loops():
    p = os.path.join(os.path.dirname(os.path.dirname(os.path.abspath(__file__))), 'contracts', 'loops.json')
    try:
        with open(p) as f:
            return json.load(f)
    except OSError:
        return {}


LOOPS = _load_loops()


def _load_json(name):
    p = os.path.join(os.path.dirname(os.path.dirname(os.path.abspath(__file__))), 'contracts', name)
    try:
        with open(p) as f:
            return json.load(f)
    except OSError:
        return {}


FILE_SHAS = _load_json('file_shas.json')
PREFLIGHT_S = int(os.environ.get('PYVC_PREFLIGHT_S', '300'))


def _file_sha(repo, rel):
    import hashlib
    try:
        with open(os.path.join(repo, rel), 'rb') as f:
            return hashlib.sha256(f.read()).hexdigest()[:16]
    except OSError:
        return None


def _preflight_child(c, repo):
    try:
        g = module_globals_for(repo, c.file)
        Driver(c, repo, g).run()
    except BaseException:
        pass          # errors are reported by the real run; the preflight only answers "does it come back?"
    os._exit(0)


def preflight(contracts, repo, budget_s=None):
    """Symbolic execution asks z3 feasibility questions in-process, and on unusual code z3 can fail to come back (its timeout and even
    an interrupt are ignored inside some sequence-solver procedures).  For every contract on a file that differs from the recorded
    baseline (contracts/file_shas.json) the path enumeration is first tried in a forked child with a hard wall-clock budget; a
    contract whose child has to be killed is not run in-process and is reported as undecided.  Returns {index: reason}."""
    budget_s = budget_s or PREFLIGHT_S
    todo = [i for i, c in enumerate(contracts) if FILE_SHAS.get(c.file) != _file_sha(repo, c.file)]
    bad, running = {}, {}
    queue = list(todo)
    t_end = {}
    while queue or running:
        while queue and len(running) < 16:
            i = queue.pop(0)
            pid = os.fork()
            if pid == 0:
                _preflight_child(contracts[i], repo)
            running[pid] = i
            t_end[pid] = time.time() + budget_s
        for pid in list(running):
            done, _ = os.waitpid(pid, os.WNOHANG)
            if done:
                running.pop(pid)
            elif time.time() > t_end[pid]:
                try:
                    os.kill(pid, 9)
                    os.waitpid(pid, 0)
                except OSError:
                    pass
                i = running.pop(pid)
                bad[i] = (f'{contracts[i].qualname}: symbolic execution of the changed function did not come back within {budget_s} s '
                          '(a solver query that ignores its timeout): outside the modelled subset')
        time.sleep(0.05)
    return bad


def verify(contracts, repo, jobs=16, both=False):
    """returns report dict: functions[], obligations[], counts, undecided reasons"""
    t0 = time.time()
    all_obs = []
    functions = []
    problems = []   # machinery-level reasons for UNDECIDED
    restructured = {}   # qualname -> why a failed obligation of it is a failed proof and not a violation
    stuck = preflight(contracts, repo)
    for ci, c in enumerate(contracts):
        entry = {'file': c.file, 'qualname': c.qualname, 'contract': type(c).__name__, 'props': list(c.props)}
        if ci in stuck:
            entry['unsupported'] = [stuck[ci]]
            problems.append(stuck[ci])
            functions.append(entry)
            continue
        try:
            g = module_globals_for(repo, c.file)
            d = Driver(c, repo, g)
            obs = d.run()
            entry.update(sha=d.src.sha, line=d.src.lineno, paths=d.paths, loops=len(d.loops))
            # decorators change what a call of the function does (property -> cache_in, lru_cache, ...) without changing its body:
            # a contract is about the body, so a decorator list that differs from the recorded one puts the function outside it
            decos = [ast.unparse(x) for x in getattr(d.src.node, 'decorator_list', [])]
            entry['decorators'] = decos
            want = DECORATORS.get(f'{c.file}::{c.qualname}')
            if want is not None and decos != want:
                problems.append(f'{c.qualname}: decorator list changed from {want} to {decos}: the contract covers the function body only '
                                '(outside the modelled subset)')
            # loop invariants are written against loops of a given shape (contracts/loops.json, tools/gen_decorators.py).  When every
            # obligation still discharges the proof stands whatever the shape; when one fails on a function whose loops were
            # restructured, the invariant may simply not be the one the new loop needs: a failed proof, not a violation
            shapes = loop_shapes(d.src.node)
            rec = LOOPS.get(f'{c.file}::{c.qualname}')
            if rec is not None and shapes != rec:
                entry['loops_restructured'] = True
                diff = [i for i in range(max(len(rec), len(shapes))) if i >= len(rec) or i >= len(shapes) or rec[i] != shapes[i]]
                what = '; '.join(f'loop{i}: {rec[i] if i < len(rec) else None} -> {shapes[i] if i < len(shapes) else None}' for i in diff[:2])
                restructured[c.qualname] = (f'loop(s) {diff} of {c.qualname} restructured since the invariants were written '
                                            f'(contracts/loops.json): {what}')
            if d.unsupported:
                entry['unsupported'] = d.unsupported[:5]
                problems.append(f'{c.qualname}: outside the modelled subset: {d.unsupported[0]}')
            labels = {o.label for o in obs}
            missing = [l for l in c.expected_labels if l not in labels]
            if missing and not d.unsupported:
                entry['missing_labels'] = missing
                problems.append(f'{c.qualname}: expected obligations were not generated: {missing}')
            for o in obs:
                all_obs.append((c, d, o))
        except Unsupported as u:
            entry['unsupported'] = [str(u)]
            problems.append(f'{c.qualname}: {u}')
        except Exception:
            entry['error'] = traceback.format_exc()
            problems.append(f'{c.qualname}: checker error: {traceback.format_exc(limit=3)}')
        functions.append(entry)

    results = solve.solve_all([o for (_, _, o) in all_obs], jobs=jobs, both=both)
    named = {}
    solver_time = 0.0
    backends = {'z3': 0, 'cvc5': 0}
    failed = []
    for (c, d, o), r in zip(all_obs, results):
        solver_time += r['time']
        name = f'{c.qualname}:{o.label}'
        st = named.setdefault(name, {'name': name, 'function': c.qualname, 'file': c.file, 'label': o.label,
                                     'kind': o.kind, 'queries': 0, 'status': 'discharged', 'backend': set(),
                                     'time': 0.0, 'props': list(c.props)})
        st['queries'] += 1
        st['time'] += r['time']
        st['backend'].add(r['backend'])
        v = r['verdict']
        if o.kind == 'prove':
            if v == 'unsat':
                backends[r['backend']] += 1
            elif v == 'sat':
                st['status'] = 'failed'
                failed.append((c, d, o, r))
            else:
                if st['status'] != 'failed':
                    st['status'] = 'undecided'
                st['reason'] = f"{v}: z3={r['z3']} cvc5={r['cvc5']}"
        else:  # cover
            if v == 'unsat':
                if st['status'] != 'failed':
                    st['status'] = 'vacuous'
            elif v == 'sat':
                backends[r['backend']] += 1
    for st in named.values():
        st['backend'] = sorted(st['backend'])
        st['time'] = round(st['time'], 3)
    report = {
        'functions': functions,
        'obligations': sorted(named.values(), key=lambda s: s['name']),
        'n_obligations': len(named),
        'n_discharged': sum(1 for s in named.values() if s['status'] == 'discharged'),
        'n_queries': len(results),
        'backends': backends,
        'solver_time_s': round(solver_time, 2),
        'wall_s': round(time.time() - t0, 2),
        'problems': problems,
        'failed': failed,
        'restructured': restructured,
    }
    return report


def counter_model(ob, timeout_ms=20000):
    """re-solve a failed obligation in-process to obtain a z3 model object"""
    s = z3.Solver()
    s.set('timeout', timeout_ms)
    s.add(*ob.pc)
    s.add(z3.Not(ob.goal))
    from .engine import bounded_check
    if bounded_check(s, timeout_ms) == z3.sat:
        return s.model()
    return None
