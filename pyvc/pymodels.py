"""Models of the Python builtins and str/bytes/list methods that the verified functions use.

Each model states Python's semantics for the modelled value sorts (DESIGN.md §7 lists them as
assumed).  Anything not modelled raises Unsupported (obligation undecided).
"""
import z3
from .engine import (Val, VInt, VBool, VBytes, VStr, VNone, NONE, VTuple, VList, VJoin, VSeq, VMap, VObj, VExc,
                     VClass, VPy, VFunc, VOpaque, Unsupported, simp, BytesSort, StrSort, py_slice, bytes_lit)

WS_BYTES = b' \t\n\r\x0b\x0c'


def _is(v, *cls):
    return isinstance(v, cls)


def call_builtin(X, f, args, kwargs):
    name = f.name
    obj = f.obj
    r0 = X.contract.builtin_hook(X, name, args, kwargs) if hasattr(X.contract, 'builtin_hook') else None
    if r0 is not None:
        return r0
    if obj is len:
        (a,) = args
        if _is(a, VBytes, VStr, VJoin) and not _is(a, VJoin):
            return VInt(z3.Length(a.t))
        if _is(a, VSeq):
            return VInt(z3.Length(a.t))
        if _is(a, VTuple, VList):
            return VInt(len(a.items))
        raise Unsupported(f'len of {type(a).__name__}')
    if obj is min or obj is max:
        if len(args) == 1 and _is(args[0], VTuple, VList):
            args = args[0].items
        if not all(_is(a, VInt) for a in args) or kwargs:
            raise Unsupported('min/max on non-int')
        r = args[0].t
        for a in args[1:]:
            r = z3.If(a.t < r, a.t, r) if obj is min else z3.If(a.t > r, a.t, r)
        return VInt(r)
    if obj is isinstance:
        v, c = args
        classes = [i.pyclass for i in c.items] if _is(c, VTuple) else [c.pyclass]
        return VBool(isinstance_model(X, v, classes))
    if name == 'int' or obj is int:
        return int_model(X, args, kwargs)
    if name == 'str' or obj is str:
        return str_model(X, args)
    if obj is bool:
        return VBool(X.truth(args[0])) if args else VBool(False)
    r = X.contract.builtin_hook(X, name, args, kwargs) if hasattr(X.contract, 'builtin_hook') else None
    if r is not None:
        return r
    raise Unsupported(f'call of builtin/global {name}')


def isinstance_model(X, v, classes):
    table = {VInt: (int,), VBool: (bool, int), VStr: (str,), VBytes: (bytes,), VNone: (type(None),),
             VTuple: (tuple,), VList: (list,), VJoin: (list,), VSeq: (list,)}
    for vc, pys in table.items():
        if type(v) is vc:
            return z3.BoolVal(any(issubclass(p, c) for p in pys for c in classes if isinstance(c, type)))
    if _is(v, VExc) and v.pyclass is not None:
        return z3.BoolVal(any(issubclass(v.pyclass, c) for c in classes))
    if _is(v, VObj) and v.pyclass is not None:
        return z3.BoolVal(any(issubclass(v.pyclass, c) for c in classes))
    if _is(v, VOpaque):
        f = X.driver.uf('isinstance', v.t.sort(), z3.StringSort(), z3.BoolSort())
        return z3.Or(*[f(v.t, z3.StringVal(c.__name__)) for c in classes])
    r = X.contract.isinstance_hook(X, v, classes) if hasattr(X.contract, 'isinstance_hook') else None
    if r is not None:
        return r
    raise Unsupported(f'isinstance on {type(v).__name__}')


def int_model(X, args, kwargs):
    """int(x) / int(x, base) as a *partial* function: the contract supplies parsability and value
    through uninterpreted functions  int_ok_<base>(s)  and  int_val_<base>(s)."""
    a = args[0]
    if _is(a, VInt):
        return a
    if _is(a, VBool):
        return VInt(z3.If(a.t, 1, 0))
    base = 10
    if len(args) > 1:
        b = simp(args[1].t)
        if not z3.is_int_value(b):
            raise Unsupported('symbolic int base')
        base = b.as_long()
    if _is(a, VStr, VBytes):
        sort = a.t.sort()
        ok = X.driver.uf(f'int_ok_{base}_{"s" if _is(a, VStr) else "b"}', sort, z3.BoolSort())
        val = X.driver.uf(f'int_val_{base}_{"s" if _is(a, VStr) else "b"}', sort, z3.IntSort())
        if not X.decide(ok(a.t)):
            X.raise_(ValueError, 'int')
        return VInt(val(a.t))
    raise Unsupported(f'int() of {type(a).__name__}')


def int_to_str(t):
    return z3.If(t >= 0, z3.IntToStr(t), z3.Concat(z3.StringVal('-'), z3.IntToStr(-t)))


def str_model(X, args):
    if not args:
        return VStr('')
    a = args[0]
    if _is(a, VStr):
        return a
    r = X.contract.str_hook(X, a) if hasattr(X.contract, 'str_hook') else None
    if r is not None:
        return r
    if _is(a, VInt):
        return VStr(int_to_str(a.t))
    if _is(a, VBool):
        return VStr(z3.If(a.t, z3.StringVal('True'), z3.StringVal('False')))
    if _is(a, VNone):
        return VStr('None')
    r = X.contract.str_hook(X, a) if hasattr(X.contract, 'str_hook') else None
    if r is not None:
        return r
    raise Unsupported(f'str() of {type(a).__name__}')


def _const_bytes(v):
    """concrete python bytes/str of a constant z3 value, else None"""
    t = simp(v.t)
    if _is(v, VStr):
        return t.as_string() if z3.is_string_value(t) else None
    # bytes: concat of units of bv constants
    out = bytearray()

    def walk(e):
        if e.decl().kind() == z3.Z3_OP_SEQ_EMPTY:
            return True
        if e.decl().kind() == z3.Z3_OP_SEQ_UNIT:
            c = e.arg(0)
            if z3.is_bv_value(c):
                out.append(c.as_long())
                return True
            return False
        if e.decl().kind() == z3.Z3_OP_SEQ_CONCAT:
            return all(walk(c) for c in e.children())
        return False
    return bytes(out) if walk(t) else None


def strip_model(X, obj, chars, side='both'):
    """x.strip(chars): result r with x == a ++ r ++ b where a, b consist of strip characters only,
    and r neither starts nor ends with one.  Encoded with fresh a, r, b (existential witnesses)."""
    sort = obj.t.sort()
    a, r, b = X.fresh(sort, 'strip_l'), X.fresh(sort, 'strip_m'), X.fresh(sort, 'strip_r')
    X.assume(obj.t == z3.Concat(a, r, b))
    # lstrip / rstrip: nothing is taken from the other end, and only the stripped end of the result is constrained
    if side == 'left':
        X.assume(z3.Length(b) == 0)
    if side == 'right':
        X.assume(z3.Length(a) == 0)
    i = z3.Int(f'strip_i!{X.n_fresh}')
    if _is(obj, VStr):
        cs = [z3.StringVal(c) for c in chars]
        in_set = lambda ch: z3.Or(*[ch == c for c in cs])   # noqa: E731
        at = lambda s, k: z3.SubString(s, k, 1)               # noqa: E731
    else:
        cs = [z3.BitVecVal(c, 8) for c in chars]
        in_set = lambda ch: z3.Or(*[ch == c for c in cs])   # noqa: E731
        at = lambda s, k: s[k]                                # noqa: E731
    X.assume(z3.ForAll([i], z3.Implies(z3.And(0 <= i, i < z3.Length(a)), in_set(at(a, i)))))
    X.assume(z3.ForAll([i], z3.Implies(z3.And(0 <= i, i < z3.Length(b)), in_set(at(b, i)))))
    ends = ([z3.Not(in_set(at(r, z3.IntVal(0))))] if side != 'right' else []) + \
        ([z3.Not(in_set(at(r, z3.Length(r) - 1)))] if side != 'left' else [])
    X.assume(z3.Implies(z3.Length(r) > 0, z3.And(*ends)))
    return type(obj)(r)


def call_method(X, obj, name, args, kwargs):
    h = X.contract.method_hook(X, obj, name, args, kwargs) if hasattr(X.contract, 'method_hook') else None
    if h is not None:
        return h
    if _is(obj, VJoin):
        if name == 'append':
            (a,) = args
            if (obj.kind == 'bytes') != _is(a, VBytes):
                raise Unsupported('append of a different kind to a join-list')
            obj.t = z3.Concat(obj.t, a.t)
            return NONE
        if name == 'clear':
            obj.t = z3.Empty(BytesSort) if obj.kind == 'bytes' else z3.StringVal('')
            return NONE
        raise Unsupported(f'list method {name} on an append-only list')
    if _is(obj, VList):
        if name == 'append':
            obj.items.append(args[0])
            return NONE
        if name == 'clear':
            obj.items.clear()
            return NONE
        if name == 'copy':
            return VList(list(obj.items))
        if name == 'insert' and len(args) == 2 and _is(args[0], VInt) and z3.is_int_value(z3.simplify(args[0].t)):
            obj.items.insert(z3.simplify(args[0].t).as_long(), args[1])
            return NONE
        raise Unsupported(f'list method {name}')
    if _is(obj, VBytes, VStr):
        S = type(obj)
        if name == 'join':
            (a,) = args
            sep = _const_bytes(obj)
            if _is(a, VJoin):
                if sep not in (b'', ''):
                    raise Unsupported('join with a separator over an append-only list')
                return S(a.t)
            if _is(a, VList, VTuple):
                if not a.items:
                    return S(z3.Empty(obj.t.sort()))
                out = a.items[0].t
                for it in a.items[1:]:
                    out = z3.Concat(out, obj.t, it.t)
                return S(out)
            raise Unsupported('join over this value')
        if name == 'startswith':
            a = args[0]
            if _is(a, VTuple):
                return VBool(z3.Or(*[z3.PrefixOf(i.t, obj.t) for i in a.items]))
            if len(args) > 1:
                raise Unsupported('startswith with offsets')
            return VBool(z3.PrefixOf(a.t, obj.t))
        if name == 'endswith':
            return VBool(z3.SuffixOf(args[0].t, obj.t))
        if name == 'strip' or name == 'lstrip' or name == 'rstrip':
            if args:
                chars = _const_bytes(args[0])
                if chars is None:
                    raise Unsupported('strip with symbolic characters')
            else:
                if _is(obj, VStr):
                    raise Unsupported('str.strip() whitespace set')
                chars = WS_BYTES
            return strip_model(X, obj, chars, {'strip': 'both', 'lstrip': 'left', 'rstrip': 'right'}[name])
        if name == 'split':
            return split_model(X, obj, args, kwargs)
        if name == 'find':
            if len(args) != 1:
                raise Unsupported('find with offsets')
            return VInt(z3.IndexOf(obj.t, args[0].t, z3.IntVal(0)))
        if name == 'encode' or name == 'decode':
            raise Unsupported(f'{name}: codecs are not modelled')
        if name == 'upper' or name == 'lower':
            f = X.driver.uf(f'str_{name}', StrSort, StrSort)
            return VStr(f(obj.t))
    if _is(obj, VMap):
        if name == 'get':
            k = obj.kunwrap(args[0])
            default = args[1] if len(args) > 1 else NONE
            if X.decide(z3.Select(obj.has, k)):
                return obj.vwrap(z3.Select(obj.val, k))
            return default
        if name == 'clear':
            obj.has = z3.K(obj.has.sort().domain(), z3.BoolVal(False))
            return NONE
        if name == 'pop':
            k = obj.kunwrap(args[0])
            if X.decide(z3.Select(obj.has, k)):
                v = obj.vwrap(z3.Select(obj.val, k))
                obj.has = z3.Store(obj.has, k, z3.BoolVal(False))
                return v
            if len(args) > 1:
                return args[1]
            X.raise_(KeyError, 'pop')
    raise Unsupported(f'method {name} on {type(obj).__name__}')


class VSplit(Val):
    """result of  s.split(sep)  without maxsplit: only its use by tuple-unpacking is modelled"""

    def __init__(self, S, s, sep):
        self.S, self.s, self.sep = S, s, sep

    def getitem(self, X, key):
        k = simp(key.t) if _is(key, VInt) else None
        if k is not None and z3.is_int_value(k) and k.as_long() == -1:
            # the last piece: the suffix after the last occurrence of the separator (the whole string when there is none).
            # Relational (fresh value + constraints): z3's seq.last_indexof is not interpreted on non-string sequences
            # (found by the CPython cross-check), so it is not used.
            sep = self.sep
            t = X.fresh(self.s.sort(), 'last_piece')
            X.assume(z3.SuffixOf(t, self.s))
            X.assume(z3.Not(z3.Contains(t, sep)))
            X.assume(z3.If(z3.Contains(self.s, sep), z3.SuffixOf(z3.Concat(sep, t), self.s), t == self.s))
            return self.S(t)
        if k is None or not z3.is_int_value(k) or k.as_long() != 0:
            raise Unsupported('index into a split other than [0]')
        i = z3.IndexOf(self.s, self.sep, z3.IntVal(0))
        return self.S(z3.If(i >= 0, z3.SubSeq(self.s, 0, i), self.s))

    def unpack(self, X, n):
        if n != 2:
            raise Unsupported('unpacking a split into other than 2 names')
        s, sep = self.s, self.sep
        i = z3.IndexOf(s, sep, z3.IntVal(0))
        one = z3.And(i >= 0, z3.IndexOf(s, sep, i + z3.Length(sep)) < 0)
        if not X.decide(one):
            X.raise_(ValueError, 'unpack')
        return [self.S(z3.SubSeq(s, 0, i)), self.S(z3.SubSeq(s, i + z3.Length(sep), z3.Length(s) - i - z3.Length(sep)))]


def split_model(X, obj, args, kwargs):
    """str/bytes.split(sep[, 1]) with a non-empty constant separator"""
    if not args or kwargs:
        raise Unsupported('split() on whitespace / with keywords')
    sepc = _const_bytes(args[0])
    if not sepc:
        raise Unsupported('split with a symbolic or empty separator')
    S = type(obj)
    sep = args[0].t
    if len(args) == 1:
        return VSplit(S, obj.t, sep)
    m = simp(args[1].t)
    if not (z3.is_int_value(m) and m.as_long() == 1):
        raise Unsupported('split with maxsplit other than 1')
    i = z3.IndexOf(obj.t, sep, z3.IntVal(0))
    if X.decide(i >= 0):
        return VList([S(z3.SubSeq(obj.t, 0, i)),
                      S(z3.SubSeq(obj.t, i + z3.Length(sep), z3.Length(obj.t) - i - z3.Length(sep)))])
    return VList([obj])
