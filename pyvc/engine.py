"""pyvc — verification-condition generation from the REAL Python source of /repo.

The function text is read from the repository file and parsed with `ast` on every run; nothing is
translated by hand.  A *contract* (sidecar, /verif/contracts) supplies: symbolic parameters and ghost
state (`pre`), loop invariants / variants keyed by loop ordinal, what a `yield` must satisfy, the
postcondition for normal and exceptional exits, and *stubs* = the contracts of everything the function
calls (callees are never inlined: assert the callee's precondition, havoc, assume its postcondition).

Execution model: forward symbolic execution, one path at a time.  Paths are enumerated by *replay*:
a path is identified by the list of decisions taken at branching points; when execution meets a new
decision it takes the first feasible side and schedules the other.  Loops are cut at their invariant:
(1) prove invariant on entry, (2) havoc everything the body may assign, assume the invariant,
(3a) guard true: run the body, prove the invariant (and the variant's decrease) again, end the path,
(3b) guard false / break: continue after the loop.  Hence every proved obligation holds for all
inputs and all iteration counts.

What the translation drops or abstracts is listed in DESIGN.md §3.1 (decorators, docstrings,
annotations, exception messages).  Anything outside the supported subset raises `Unsupported`, which
the driver reports as UNDECIDED — never as proved and never as a violation.
"""
import ast
import hashlib
import os
import z3

BV8 = z3.BitVecSort(8)
BytesSort = z3.SeqSort(BV8)
StrSort = z3.StringSort()
IntSort = z3.IntSort()


class Unsupported(Exception):
    """construct outside the modelled subset -> obligation undecided"""


class PathEnd(Exception):
    """this path is finished (loop cut, infeasible assumption)"""


class PyRaise(Exception):
    def __init__(self, exc):
        self.exc = exc


class _Return(Exception):
    def __init__(self, val):
        self.val = val


class _Break(Exception):
    pass


class _Continue(Exception):
    pass


# --------------------------------------------------------------------------- values
class Val:
    mutable = False

    def clone(self, memo):
        return self


class VInt(Val):
    def __init__(self, t):
        self.t = z3.IntVal(t) if isinstance(t, int) else t


class VBool(Val):
    def __init__(self, t):
        self.t = z3.BoolVal(t) if isinstance(t, bool) else t


class VBytes(Val):
    def __init__(self, t):
        self.t = bytes_lit(t) if isinstance(t, (bytes, bytearray)) else t


class VStr(Val):
    def __init__(self, t):
        self.t = z3.StringVal(t) if isinstance(t, str) else t


class VNone(Val):
    pass


NONE = VNone()


class VTuple(Val):
    def __init__(self, items):
        self.items = list(items)


class VList(Val):
    """list of statically known length (elements symbolic)"""
    mutable = True

    def __init__(self, items):
        self.items = list(items)

    def clone(self, memo):
        if id(self) not in memo:
            memo[id(self)] = VList([])
            memo[id(self)].items = [i.clone(memo) for i in self.items]
        return memo[id(self)]


class VJoin(Val):
    """append-only list of bytes/str pieces, known only through the concatenation of its items
    (sound for lists used only via append/clear/join/truthiness)."""
    mutable = True

    def __init__(self, kind, t=None):
        self.kind = kind  # 'bytes' | 'str'
        self.t = t if t is not None else (z3.Empty(BytesSort) if kind == 'bytes' else z3.StringVal(''))

    def clone(self, memo):
        if id(self) not in memo:
            memo[id(self)] = VJoin(self.kind, self.t)
        return memo[id(self)]


class VSeq(Val):
    """immutable sequence of unknown length: z3 Seq term + element wrapper"""

    def __init__(self, t, wrap):
        self.t = t
        self.wrap = wrap  # z3 element term -> Val


class VMap(Val):
    """dict: `has` Array(K->Bool), `val` Array(K->V); vwrap turns a z3 value into a Val"""
    mutable = True

    def __init__(self, has, val, kunwrap, vwrap, vunwrap):
        self.has, self.val = has, val
        self.kunwrap, self.vwrap, self.vunwrap = kunwrap, vwrap, vunwrap

    def clone(self, memo):
        if id(self) not in memo:
            memo[id(self)] = VMap(self.has, self.val, self.kunwrap, self.vwrap, self.vunwrap)
        return memo[id(self)]


class VObj(Val):
    """object with named fields (self, records); `cls` is a free-form tag"""
    mutable = True

    def __init__(self, cls, fields=None, pyclass=None):
        self.cls = cls
        self.fields = dict(fields or {})
        self.pyclass = pyclass

    def clone(self, memo):
        if id(self) not in memo:
            o = VObj(self.cls, None, self.pyclass)
            memo[id(self)] = o
            o.fields = {k: v.clone(memo) for k, v in self.fields.items()}
        return memo[id(self)]


class VExc(Val):
    """exception instance of a concrete python class (or tag)"""

    def __init__(self, pyclass, tag=None, payload=None):
        self.pyclass = pyclass
        self.tag = tag
        self.payload = payload


class VClass(Val):
    def __init__(self, pyclass):
        self.pyclass = pyclass


class VPy(Val):
    """an opaque concrete python object taken from the real module namespace (module, function ...)"""

    def __init__(self, obj, name=None):
        self.obj = obj
        self.name = name


class VFunc(Val):
    """callable given by a contract stub: fn(X, args, kwargs) -> Val"""

    def __init__(self, fn, name='<stub>'):
        self.fn = fn
        self.name = name


class VOpaque(Val):
    """value of the uninterpreted python-object sort"""

    def __init__(self, t, tag=None):
        self.t = t
        self.tag = tag


PyObj = z3.DeclareSort('PyObj')


def bytes_lit(b):
    if len(b) == 0:
        return z3.Empty(BytesSort)
    units = [z3.Unit(z3.BitVecVal(x, 8)) for x in b]
    return units[0] if len(units) == 1 else z3.Concat(*units)


def py_slice(seq, lo, hi, L=None):
    """Python slice seq[lo:hi] with clamping; lo/hi z3 Int terms or None."""
    L = z3.Length(seq) if L is None else L

    def norm(x, default):
        if x is None:
            return default
        x = z3.If(x < 0, x + L, x)
        return z3.If(x < 0, z3.IntVal(0), z3.If(x > L, L, x))
    lo = norm(lo, z3.IntVal(0))
    hi = norm(hi, L)
    return z3.SubSeq(seq, lo, z3.If(hi > lo, hi - lo, z3.IntVal(0)))


def simp(t):
    return z3.simplify(t)


# --------------------------------------------------------------------------- obligations
class Obligation:
    __slots__ = ('label', 'pc', 'goal', 'kind', 'where', 'key', 'path', 'trace')

    def __init__(self, label, pc, goal, kind='prove', where=None, path=None, trace=None):
        self.label = label
        self.pc = list(pc)
        self.goal = goal
        self.kind = kind        # 'prove' (pc => goal valid) | 'cover' (pc satisfiable)
        self.where = where
        self.path = path
        self.trace = trace
        h = hashlib.sha1()
        for p in self.pc:
            h.update(p.sexpr().encode())
        h.update(b'|')
        h.update(goal.sexpr().encode() if goal is not None else b'')
        self.key = (label, kind, h.hexdigest())

    def smt2(self):
        s = z3.Solver()
        for p in self.pc:
            s.add(p)
        if self.kind == 'prove':
            s.add(z3.Not(self.goal))
        return s.to_smt2()


# --------------------------------------------------------------------------- source access
class Source:
    """the real function text, re-read from the repository on every run"""

    def __init__(self, repo, relfile, qualname):
        self.repo, self.relfile, self.qualname = repo, relfile, qualname
        path = os.path.join(repo, relfile)
        with open(path, encoding='utf8') as f:
            self.text = f.read()
        self.tree = ast.parse(self.text, filename=path)
        self.node = self._find(self.tree, qualname.split('.'))
        seg = ast.get_source_segment(self.text, self.node)
        self.sha = hashlib.sha256(seg.encode()).hexdigest()[:16]
        self.lineno = self.node.lineno

    @staticmethod
    def _find(tree, parts):
        node = tree
        for p in parts:
            found = None
            if p.endswith('@setter'):
                # the setter of a property:  @<name>.setter  def <name>(self, value)
                nm = p[:-len('@setter')]
                for n in ast.walk(node):
                    if isinstance(n, ast.FunctionDef) and n.name == nm and any(
                            isinstance(d, ast.Attribute) and d.attr == 'setter' for d in n.decorator_list):
                        found = n
                        break
                if found is None:
                    raise Unsupported(f'setter {nm} not found')
                node = found
                continue
            if '#' in p:
                # the k-th (0-based, source order) function of that name inside the current node: closures defined
                # several times under one name (FilterFactory.make_filter.handler#0..2)
                nm, k = p.split('#')
                cands = sorted([n for n in ast.walk(node) if isinstance(n, ast.FunctionDef) and n.name == nm and n is not node],
                               key=lambda n: n.lineno)
                if int(k) >= len(cands):
                    raise Unsupported(f'function {p} not found')
                node = cands[int(k)]
                continue
            # search direct body first, then nested statement bodies (if/try at module level)
            for n in ast.walk(node) if node is tree else ast.iter_child_nodes(node):
                if isinstance(n, (ast.FunctionDef, ast.ClassDef, ast.AsyncFunctionDef)) and n.name == p:
                    found = n
                    break
            if found is None:
                # nested defs inside function bodies (closures)
                for n in ast.walk(node):
                    if n is not node and isinstance(n, (ast.FunctionDef, ast.ClassDef)) and n.name == p:
                        found = n
                        break
            if found is None:
                raise Unsupported(f'function {".".join(parts)} not found')
            node = found
        return node


def loops_of(fn_node):
    """loop nodes of the function in source order, excluding nested function definitions"""
    out = []

    def walk(n):
        for c in ast.iter_child_nodes(n):
            if isinstance(c, (ast.FunctionDef, ast.AsyncFunctionDef, ast.Lambda, ast.ClassDef)):
                continue
            if isinstance(c, (ast.While, ast.For)):
                out.append(c)
            walk(c)
    walk(fn_node)
    return out


def loop_shapes(fn_node):
    """what a loop invariant is written against, per loop in source order: the kind of loop, whether a `while` has the constant
    test True (exits by break only), the locals / fields the loop may change, and how many break / continue / else it has.
    Expressions (tests, bounds, right-hand sides) are NOT part of the shape: a change of those leaves the invariant applicable."""
    out = []
    for lp in loops_of(fn_node):
        names, fields, mutated = assigned_names(lp.body + lp.orelse + ([lp.target] if isinstance(lp, ast.For) else []))
        inner = [n for b in lp.body for n in ast.walk(b)]
        out.append({'kind': type(lp).__name__,
                    'test_true': bool(isinstance(lp, ast.While) and isinstance(lp.test, ast.Constant) and lp.test.value is True),
                    'assigned': sorted(names) + sorted(f'{a}.{b}' for a, b in fields) + sorted(f'*{m}' for m in mutated),
                    'breaks': sum(isinstance(n, ast.Break) for n in inner),
                    'continues': sum(isinstance(n, ast.Continue) for n in inner),
                    'else': bool(lp.orelse)})
    return out


def assigned_names(nodes):
    """names (and self.<attr> fields, and receivers of mutator calls) a block may assign"""
    names, fields, mutated = set(), set(), set()
    MUT = {'append', 'clear', 'extend', 'insert', 'pop', 'remove', 'add', 'update', 'setdefault', 'write'}
    for node in nodes:
        for n in ast.walk(node):
            if isinstance(n, ast.Name) and isinstance(n.ctx, (ast.Store, ast.Del)):
                names.add(n.id)
            elif isinstance(n, ast.Attribute) and isinstance(n.ctx, (ast.Store, ast.Del)):
                if isinstance(n.value, ast.Name):
                    fields.add((n.value.id, n.attr))
            elif isinstance(n, ast.Subscript) and isinstance(n.ctx, (ast.Store, ast.Del)):
                if isinstance(n.value, ast.Name):
                    mutated.add(n.value.id)
                else:
                    _mark_reached(n.value, fields, mutated)
            elif isinstance(n, ast.Call) and isinstance(n.func, ast.Attribute) and n.func.attr in MUT:
                if isinstance(n.func.value, ast.Name):
                    mutated.add(n.func.value.id)
                elif isinstance(n.func.value, ast.Attribute) and isinstance(n.func.value.value, ast.Name):
                    fields.add((n.func.value.value.id, n.func.value.attr))
                else:
                    # x[k].append(..), x.a.b.append(..), x.a[k].append(..): an object reached through x is mutated
                    _mark_reached(n.func.value, fields, mutated)
    return names, fields, mutated


def _mark_reached(e, fields, mutated):
    """e is an expression whose value is mutated in place (or has an item stored into it) and is not a plain name:
    havoc the local it is reached through - the whole local for x[...]..., the field x.a for x.a[...] / x.a.b..."""
    chain = []
    while isinstance(e, (ast.Subscript, ast.Attribute)):
        chain.append(e)
        e = e.value
    if not isinstance(e, ast.Name):
        return
    first = chain[-1] if chain else None
    if isinstance(first, ast.Attribute):
        fields.add((e.id, first.attr))
    else:
        mutated.add(e.id)


def bounded_check(solver, timeout_ms):
    """solver.check() that really comes back: z3's own timeout is not honoured inside some theory procedures (sequence solver
    with large length bounds), so a watchdog thread interrupts the context after twice the budget; the answer is then `unknown`
    (for a feasibility question: treated as feasible, which only adds paths - sound)"""
    import threading
    done = threading.Event()
    ctx = solver.ctx      # the watchdog must not hold the solver: a last reference dropped there would free it from that thread

    def dog():
        if not done.wait(timeout_ms / 1000.0 * 2 + 1.0):
            try:
                ctx.interrupt()
            except Exception:
                pass
    t = threading.Thread(target=dog, daemon=True)
    t.start()
    try:
        return solver.check()
    except z3.Z3Exception:
        return z3.unknown
    finally:
        done.set()


# --------------------------------------------------------------------------- the path executor
class X:
    """one symbolic path through one function under one contract"""

    FEAS_TIMEOUT_MS = 2000

    def __init__(self, driver, script):
        self.driver = driver
        self.contract = driver.contract
        self.src = driver.src
        self.script = list(script)
        self.taken = []
        self.cursor = 0
        self.pc = []
        self.env = {}
        self.ghost = {}
        self.n_fresh = 0
        self.trace = []          # free-form records for counterexample concretisation
        self.loop_ids = {id(n): i for i, n in enumerate(driver.loops)}
        self.where = None
        self.globals = driver.module_globals
        self.loop_stack = []

    # ---- symbols
    def fresh(self, sort, hint='v'):
        self.n_fresh += 1
        return z3.Const(f'{hint}!{self.n_fresh}', sort)

    def fresh_int(self, hint='i'):
        return VInt(self.fresh(IntSort, hint))

    def fresh_bool(self, hint='b'):
        return VBool(self.fresh(z3.BoolSort(), hint))

    def fresh_bytes(self, hint='bs'):
        return VBytes(self.fresh(BytesSort, hint))

    def fresh_str(self, hint='s'):
        return VStr(self.fresh(StrSort, hint))

    def fresh_like(self, v, hint):
        if isinstance(v, VInt):
            return self.fresh_int(hint)
        if isinstance(v, VBool):
            return self.fresh_bool(hint)
        if isinstance(v, VBytes):
            return self.fresh_bytes(hint)
        if isinstance(v, VStr):
            return self.fresh_str(hint)
        if isinstance(v, VJoin):
            return VJoin(v.kind, self.fresh(BytesSort if v.kind == 'bytes' else StrSort, hint))
        if isinstance(v, VNone):
            return v
        if isinstance(v, VTuple):
            return VTuple([self.fresh_like(i, hint) for i in v.items])
        if isinstance(v, VList):
            return VList([self.fresh_like(i, hint) for i in v.items])
        if isinstance(v, VSeq):
            return VSeq(self.fresh(v.t.sort(), hint), v.wrap)
        if isinstance(v, VMap):
            return VMap(self.fresh(v.has.sort(), hint + '_has'), self.fresh(v.val.sort(), hint + '_val'),
                        v.kunwrap, v.vwrap, v.vunwrap)
        if isinstance(v, VOpaque):
            return VOpaque(self.fresh(PyObj, hint), v.tag)
        if isinstance(v, (VExc, VClass, VPy, VFunc)):
            return v
        if isinstance(v, VObj):
            o = VObj(v.cls, None, v.pyclass)
            o.fields = {k: self.fresh_like(f, f'{hint}_{k}') for k, f in v.fields.items()}
            return o
        if hasattr(v, 'havoc'):
            return v.havoc(self, hint)
        if z3.is_expr(v):
            return self.fresh(v.sort(), hint)      # a ghost kept as a bare term (array, int, ...)
        raise Unsupported(f'cannot havoc a value of type {type(v).__name__} ({hint})')

    # ---- logical interface used by contracts
    def assume(self, t):
        t = simp(t) if z3.is_expr(t) else z3.BoolVal(bool(t))
        if z3.is_false(t):
            raise PathEnd()
        if not z3.is_true(t):
            self.pc.append(t)

    def prove(self, label, t, note=None):
        t = t if z3.is_expr(t) else z3.BoolVal(bool(t))
        self.driver.add_obligation(Obligation(label, self.pc, t, 'prove', self.where, list(self.taken), list(self.trace)))

    def cover(self, label):
        self.driver.add_obligation(Obligation(label, self.pc, None, 'cover', self.where, list(self.taken)))

    def feasible(self, extra):
        s = z3.Solver()
        s.set('timeout', self.FEAS_TIMEOUT_MS)
        s.add(*self.pc)
        s.add(extra)
        return bounded_check(s, self.FEAS_TIMEOUT_MS) != z3.unsat

    def choose(self, n, label='choice'):
        """n-way nondeterministic choice (all alternatives explored)"""
        if self.cursor < len(self.script):
            k = self.script[self.cursor]
        else:
            k = 0
            for alt in range(n - 1, 0, -1):
                self.driver.schedule(self.taken + [alt])
        self.cursor += 1
        self.taken.append(k)
        return k

    def decide(self, cond):
        """branch on a z3 Bool; explores both sides when both are feasible"""
        cond = simp(cond)
        if z3.is_true(cond):
            return True
        if z3.is_false(cond):
            return False
        if self.cursor < len(self.script):
            k = self.script[self.cursor]
        else:
            ft = self.feasible(cond)
            ff = self.feasible(z3.Not(cond))
            if ft and ff:
                k = 1
                self.driver.schedule(self.taken + [0])
            elif ft:
                k = 1
            elif ff:
                k = 0
            else:
                raise PathEnd()
        self.cursor += 1
        self.taken.append(k)
        if k:
            self.pc.append(cond)
        else:
            self.pc.append(simp(z3.Not(cond)))
        return bool(k)

    def v(self, name):
        if name not in self.env:
            raise Unsupported(f'contract refers to local `{name}` which is not defined at this point')
        return self.env[name]

    def has_local(self, name):
        return name in self.env

    def g(self, name):
        return self.ghost[name]

    def setg(self, name, val):
        self.ghost[name] = val

    def raise_(self, pyclass, tag=None):
        raise PyRaise(VExc(pyclass, tag))

    def record(self, **kw):
        self.trace.append(kw)

    # ---- truthiness / coercions
    def truth(self, v):
        if hasattr(v, 'truth'):
            return v.truth(self)
        if isinstance(v, VBool):
            return v.t
        if isinstance(v, VInt):
            return v.t != 0
        if isinstance(v, (VBytes, VStr, VJoin)):
            return z3.Length(v.t) > 0
        if isinstance(v, VSeq):
            return z3.Length(v.t) > 0
        if isinstance(v, VNone):
            return z3.BoolVal(False)
        if isinstance(v, (VTuple, VList)):
            return z3.BoolVal(len(v.items) > 0)
        if isinstance(v, (VObj, VExc, VClass, VFunc, VPy)):
            if isinstance(v, VObj) and 'truthy' in v.fields:
                return v.fields['truthy'].t
            return z3.BoolVal(True)
        if isinstance(v, VOpaque):
            return self.driver.uf('truthy', PyObj, z3.BoolSort())(v.t)
        raise Unsupported(f'truthiness of {type(v).__name__}')

    def lift(self, c):
        """python constant -> Val"""
        if isinstance(c, Val):
            return c
        if c is None:
            return NONE
        if isinstance(c, bool):
            return VBool(c)
        if isinstance(c, int):
            return VInt(c)
        if isinstance(c, bytes):
            return VBytes(c)
        if isinstance(c, str):
            return VStr(c)
        if isinstance(c, tuple):
            return VTuple([self.lift(i) for i in c])
        if isinstance(c, type):
            return VClass(c)
        return VPy(c)

    # ---- statements
    def run_function(self):
        fn = self.src.node
        c = self.contract
        params = c.pre(self) or {}
        self.bind_params(fn, params)
        self.cover('pre.reachable')
        try:
            self.exec_block(fn.body)
            ret = NONE
        except _Return as r:
            ret = r.val
        except PyRaise as e:
            self.where = ('raise', getattr(e.exc, 'lineno', None))
            c.post_raise(self, e.exc)
            return
        c.post(self, ret)

    def bind_params(self, fn, params):
        names = [a.arg for a in fn.args.posonlyargs + fn.args.args + fn.args.kwonlyargs]
        if fn.args.vararg:
            names.append(fn.args.vararg.arg)
        if fn.args.kwarg:
            names.append(fn.args.kwarg.arg)
        for n in names:
            if n in params:
                self.env[n] = params[n]
            else:
                raise Unsupported(f'contract does not bind parameter `{n}` of {self.src.qualname}')
        for k, v in params.items():
            if k not in names:
                # free variables of closures may be bound by the contract too
                self.env[k] = v

    def exec_block(self, stmts):
        for s in stmts:
            self.exec_stmt(s)

    def exec_stmt(self, s):
        self.where = ('line', s.lineno)
        m = getattr(self, 'st_' + type(s).__name__, None)
        if m is None:
            raise Unsupported(f'statement {type(s).__name__} at line {s.lineno}')
        return m(s)

    def st_Pass(self, s):
        pass

    def st_Expr(self, s):
        if isinstance(s.value, ast.Constant):
            return  # docstring
        self.eval(s.value)

    def st_Assign(self, s):
        val = self.eval(s.value)
        for t in s.targets:
            self.assign(t, val)

    def st_AnnAssign(self, s):
        if s.value is not None:
            self.assign(s.target, self.eval(s.value))

    def st_AugAssign(self, s):
        cur = self.eval(self._load(s.target))
        val = self.binop(s.op, cur, self.eval(s.value))
        self.assign(s.target, val)

    @staticmethod
    def _load(t):
        import copy
        t2 = copy.copy(t)
        t2.ctx = ast.Load()
        return t2

    def assign(self, target, val):
        if isinstance(target, ast.Name):
            self.env[target.id] = val
        elif isinstance(target, (ast.Tuple, ast.List)):
            items = self.unpack(val, len(target.elts))
            for t, v in zip(target.elts, items):
                self.assign(t, v)
        elif isinstance(target, ast.Attribute):
            obj = self.eval(target.value)
            hook = self.contract.setattr_hook(self, obj, target.attr, val)
            if hook is not None:
                return
            if isinstance(obj, VObj):
                obj.fields[target.attr] = val
            else:
                raise Unsupported(f'attribute store on {type(obj).__name__}')
        elif isinstance(target, ast.Subscript):
            if isinstance(target.slice, ast.Slice):
                if self.contract.setslice_hook(self, target, val):
                    return
                sl = target.slice
                if sl.lower is None and sl.upper is None and sl.step is None:
                    obj = self.eval(target.value)
                    if isinstance(obj, VList) and isinstance(val, (VList, VTuple)):
                        obj.items[:] = list(val.items)   # in place: every alias of the list sees the new content
                        return
                raise Unsupported('slice assignment')
            obj = self.eval(target.value)
            key = self.eval(target.slice)
            self.setitem(obj, key, val)
        else:
            raise Unsupported(f'assignment target {type(target).__name__}')

    def unpack(self, val, n):
        if hasattr(val, 'unpack'):
            return val.unpack(self, n)
        if isinstance(val, (VTuple, VList)):
            if len(val.items) != n:
                self.raise_(ValueError, 'unpack')
            return val.items
        if isinstance(val, VSeq):
            L = z3.Length(val.t)
            if not self.decide(L == n):
                self.raise_(ValueError, 'unpack')
            return [val.wrap(val.t[i]) for i in range(n)]
        raise Unsupported(f'unpacking {type(val).__name__}')

    def st_Return(self, s):
        raise _Return(self.eval(s.value) if s.value is not None else NONE)

    def st_Break(self, s):
        raise _Break()

    def st_Continue(self, s):
        raise _Continue()

    def st_Assert(self, s):
        t = self.truth(self.eval(s.test))
        if not self.decide(t):
            self.raise_(AssertionError, 'assert')

    def st_Raise(self, s):
        if s.exc is None:
            if not getattr(self, 'handling', None):
                raise Unsupported('bare raise outside handler')
            raise PyRaise(self.handling[-1])
        v = self.eval(s.exc)
        if isinstance(v, VClass):
            v = VExc(v.pyclass)
        if not isinstance(v, VExc):
            v2 = self.contract.raise_hook(self, v)
            if v2 is None:
                raise Unsupported(f'raise of {type(v).__name__}')
            v = v2
        raise PyRaise(v)

    def st_If(self, s):
        if self.decide(self.truth(self.eval(s.test))):
            self.exec_block(s.body)
        else:
            self.exec_block(s.orelse)

    def st_Delete(self, s):
        for t in s.targets:
            if isinstance(t, ast.Name):
                self.env.pop(t.id, None)
            elif isinstance(t, ast.Subscript) and not isinstance(t.slice, ast.Slice):
                obj, key = self.eval(t.value), self.eval(t.slice)
                if self.contract.delitem_hook(self, obj, key):
                    continue
                if isinstance(obj, VMap):
                    # del d[k]: KeyError when absent, otherwise the entry is gone
                    k = obj.kunwrap(key)
                    if not self.decide(z3.Select(obj.has, k)):
                        self.raise_(KeyError, 'key')
                    obj.has = z3.Store(obj.has, k, z3.BoolVal(False))
                    continue
                raise Unsupported('del of an item the contract does not model')
            else:
                raise Unsupported('del of non-name')

    def st_Nonlocal(self, s):
        self.contract.nonlocal_hook(self, s.names)

    def st_Global(self, s):
        raise Unsupported('global statement')

    def st_FunctionDef(self, s):
        # nested function: a value that can only be called through a stub named after it
        stub = self.contract.stubs.get(s.name)
        self.env[s.name] = VFunc(stub, s.name) if stub else VPy(None, s.name)

    def st_With(self, s):
        # `with <expr> as <name>:` - the context manager is a callee (stub); __exit__ is assumed not to swallow exceptions
        for item in s.items:
            v = self.eval(item.context_expr)
            if item.optional_vars is not None:
                self.assign(item.optional_vars, v)
        self.exec_block(s.body)

    def st_Try(self, s):
        try:
            try:
                self.exec_block(s.body)
            except PyRaise as e:
                for h in s.handlers:
                    if self.exc_matches(e.exc, h.type):
                        if h.name:
                            self.env[h.name] = e.exc
                        self.handling = getattr(self, 'handling', []) + [e.exc]
                        try:
                            self.exec_block(h.body)
                        finally:
                            self.handling = self.handling[:-1]
                        break
                else:
                    raise
            else:
                self.exec_block(s.orelse)
        except (PathEnd, Unsupported):
            raise
        except BaseException:
            if s.finalbody:
                self.exec_block(s.finalbody)
            raise
        else:
            if s.finalbody:
                self.exec_block(s.finalbody)

    def exc_matches(self, exc, type_node):
        if type_node is None:
            return True
        tv = self.eval(type_node)
        classes = [i for i in tv.items] if isinstance(tv, VTuple) else [tv]
        pyclasses = []
        for c in classes:
            if not isinstance(c, VClass):
                raise Unsupported('except clause with a non-class')
            pyclasses.append(c.pyclass)
        if exc.pyclass is None:
            # exception of unknown class: contract decides (fork)
            return self.contract.unknown_exc_matches(self, exc, pyclasses)
        return any(issubclass(exc.pyclass, pc) for pc in pyclasses)

    # ---- loops
    def loop_cut(self, node, k, modified_names, modified_fields, mutated, run_body, guard, orelse):
        """generic invariant cut.  run_body(): executes one iteration (after guard holds);
        guard(): z3 Bool or None (None = no guard, `while True` / handled inside run_body)."""
        c = self.contract
        inv = c.loop_inv.get(k)
        if inv is None:
            raise Unsupported(f'loop #{k} of {self.src.qualname} (line {node.lineno}) has no invariant in the contract')
        c.before_loop(self, k)
        for name, t in inv(self):
            self.prove(f'loop{k}.inv_init.{name}', t)
        frozen = set(c.loop_frozen_ghost.get(k, ()))
        # havoc
        for n in sorted(modified_names | mutated):
            if n in self.env:
                ov = c.havoc_override(self, k, n)
                self.env[n] = ov if ov is not None else self.fresh_like(self.env[n], n)
        for (on, fld) in sorted(modified_fields):
            o = self.env.get(on)
            if isinstance(o, VObj) and fld in o.fields:
                ov = c.havoc_override(self, k, f'{on}.{fld}')
                o.fields[fld] = ov if ov is not None else self.fresh_like(o.fields[fld], f'{on}_{fld}')
        for gname in sorted(self.ghost):
            if gname in c.ghost_const or gname in frozen:
                continue
            self.ghost[gname] = self.fresh_like(self.ghost[gname], 'g_' + gname)
        c.after_havoc(self, k)
        for name, t in inv(self):
            self.assume(t)
        c.loop_head(self, k)
        variant = c.loop_variant.get(k)
        v0 = variant(self) if variant else None
        g = guard()
        if g is None or self.decide(g):
            self.cover(f'loop{k}.body_reachable')
            try:
                run_body()
            except _Break:
                c.after_loop(self, k, 'break')
                return
            except _Continue:
                pass
            c.end_of_body(self, k)
            for name, t in inv(self):
                self.prove(f'loop{k}.inv_preserved.{name}', t)
            if variant:
                v1 = variant(self)
                self.prove(f'loop{k}.variant_decreases', z3.And(v0 >= 0, v1 < v0))
            raise PathEnd()
        else:
            c.after_loop(self, k, 'guard')
            self.exec_block(orelse)

    def st_While(self, s):
        k = self.loop_ids[id(s)]
        names, fields, mutated = assigned_names(s.body + s.orelse)

        def guard():
            return self.truth(self.eval(s.test))

        def body():
            self.exec_block(s.body)
        self.loop_cut(s, k, names, fields, mutated, body, guard, s.orelse)

    @staticmethod
    def _merge_branches(st):
        """if c: T = a  else: T = b   ->  T = a if c else b      (same target T; also acc.append(a) / acc.append(b));
        the order of evaluation is the same in both forms (test, chosen value, then the target)"""
        if not (isinstance(st, ast.If) and len(st.body) == 1 and len(st.orelse) == 1):
            return st
        a, b = X._merge_branches(st.body[0]), X._merge_branches(st.orelse[0])
        if isinstance(a, ast.Assign) and isinstance(b, ast.Assign) and len(a.targets) == 1 and len(b.targets) == 1 \
                and ast.dump(a.targets[0]) == ast.dump(b.targets[0]):
            new = ast.Assign(targets=a.targets, value=ast.IfExp(test=st.test, body=a.value, orelse=b.value))
        elif isinstance(a, ast.Expr) and isinstance(b, ast.Expr) and isinstance(a.value, ast.Call) and isinstance(b.value, ast.Call) \
                and ast.dump(a.value.func) == ast.dump(b.value.func) and isinstance(a.value.func, ast.Attribute) \
                and isinstance(a.value.func.value, ast.Name) and len(a.value.args) == 1 and len(b.value.args) == 1 \
                and not a.value.keywords and not b.value.keywords:
            new = ast.Expr(value=ast.Call(func=a.value.func, keywords=[],
                                          args=[ast.IfExp(test=st.test, body=a.value.args[0], orelse=b.value.args[0])]))
        else:
            return st
        ast.copy_location(new, st)
        ast.fix_missing_locations(new)
        return new

    def _loop_as_comprehension(self, s):
        """a for statement that is a comprehension in statement form:
             for t in A: [for u in B:] [if c: continue] [if d:]  f(...)            -> [f(...) for t in A ...]      (effects only)
             for t in A: [for u in B:] [if c: continue] [if d:]  acc.append(e)     -> acc = [e for t in A ...]     (acc empty before)
             for t in A: [if c: continue] [if d:]  acc[k] = v                      -> acc = {k: v for t in A ...}  (acc empty before)
        returns (kind, comprehension node, accumulator name) or None.  Python runs both forms identically (same evaluation order,
        same number of evaluations); only the scope of the loop targets differs, which matters only if they are read afterwards."""
        gens, cur = [], s
        while True:
            if cur.orelse:
                return None
            ifs, body = [], list(cur.body)
            while body and isinstance(body[0], ast.If) and not body[0].orelse and len(body[0].body) == 1 \
                    and isinstance(body[0].body[0], ast.Continue):
                ifs.append(ast.UnaryOp(op=ast.Not(), operand=body[0].test))
                body = body[1:]
            while len(body) == 1 and isinstance(body[0], ast.If) and not body[0].orelse:
                ifs.append(body[0].test)
                body = list(body[0].body)
            gens.append(ast.comprehension(target=cur.target, iter=cur.iter, ifs=ifs, is_async=0))
            if len(body) == 1 and isinstance(body[0], ast.For):
                cur = body[0]
                continue
            break
        if len(body) != 1:
            return None
        st = self._merge_branches(body[0])
        node, kind, acc = None, None, None
        if isinstance(st, ast.Expr) and isinstance(st.value, ast.Call):
            c = st.value
            if isinstance(c.func, ast.Attribute) and c.func.attr == 'append' and isinstance(c.func.value, ast.Name) \
                    and len(c.args) == 1 and not c.keywords:
                kind, node, acc = 'list', ast.ListComp(elt=c.args[0], generators=gens), c.func.value.id
            else:
                kind, node = 'effect', ast.ListComp(elt=c, generators=gens)
        elif isinstance(st, ast.Assign) and len(st.targets) == 1 and isinstance(st.targets[0], ast.Subscript) \
                and isinstance(st.targets[0].value, ast.Name) and not isinstance(st.targets[0].slice, ast.Slice):
            kind, node, acc = 'dict', ast.DictComp(key=st.targets[0].slice, value=st.value, generators=gens), st.targets[0].value.id
        if node is None:
            return None
        ast.copy_location(node, s)
        ast.fix_missing_locations(node)
        return kind, node, acc

    def st_For(self, s):
        k = self.loop_ids[id(s)]
        if self.contract.loop_inv.get(k) is None:
            # no invariant for this loop: it may be a comprehension written as a statement (the form the contract knows)
            norm = self._loop_as_comprehension(s)
            if norm is not None:
                kind, node, acc = norm
                cur = self.env.get(acc) if acc else None
                empty = acc is None or (isinstance(cur, VList) and not cur.items and kind == 'list') \
                    or (isinstance(cur, VEmptyDict) and kind == 'dict')
                nested_ids = [self.loop_ids[id(n)] for n in ast.walk(s) if isinstance(n, ast.For) and n is not s]
                if empty and all(self.contract.loop_inv.get(j) is None for j in nested_ids):
                    val = self.eval(node)
                    if acc:
                        self.env[acc] = val
                    return
        it = self.eval_iter(s.iter)
        names, fields, mutated = assigned_names([s.target] + s.body + s.orelse)
        if it[0] == 'concrete':
            # statically known items: plain unrolling, no invariant needed
            broke = False
            for item in it[1]:
                self.assign(s.target, item)
                try:
                    self.exec_block(s.body)
                except _Break:
                    broke = True
                    break
                except _Continue:
                    continue
            if not broke:
                self.exec_block(s.orelse)
            return
        if it[0] == 'indexed':
            # iteration over a symbolic sequence: hidden index ghost  __i<k>
            _, length, item_at = it
            idx_name = f'__i{k}'
            self.env[idx_name] = VInt(0)
            names = names | {idx_name}

            def guard():
                i = self.env[idx_name].t
                self.assume(z3.And(i >= 0, i <= length))
                return i < length

            def body():
                i = self.env[idx_name].t
                self.assign(s.target, item_at(i))
                self.env[idx_name] = VInt(i + 1)
                self.exec_block(s.body)
            self.loop_cut(s, k, names, fields, mutated, body, guard, s.orelse)
            return
        if it[0] == 'generator':
            # consumption of a generator that has a contract: it = ('generator', gen)
            gen = it[1]

            def guard():
                return None

            def body():
                item = gen.next(self)   # may raise PyRaise, or _Break-like exhaustion
                if item is None:
                    raise _GenExhausted()
                self.assign(s.target, item)
                self.exec_block(s.body)
            try:
                self.loop_cut(s, k, names, fields, mutated, body, guard, s.orelse)
            except _GenExhausted:
                self.exec_block(s.orelse)
            return
        raise Unsupported('for loop over this iterable')

    def eval_iter(self, node):
        # enumerate(x) / plain x
        if isinstance(node, ast.Call) and isinstance(node.func, ast.Name) and node.func.id == 'enumerate' \
                and 'enumerate' not in self.env:
            inner = self.eval_iter(node.args[0])
            start = 0
            for kw in node.keywords:
                if kw.arg == 'start':
                    start = self.eval(kw.value)
                    if not (isinstance(start, VInt) and z3.is_int_value(simp(start.t))):
                        raise Unsupported('enumerate start')
                    start = simp(start.t).as_long()
            if inner[0] == 'concrete':
                return ('concrete', [VTuple([VInt(i + start), it]) for i, it in enumerate(inner[1])])
            if inner[0] == 'indexed':
                _, length, item_at = inner
                return ('indexed', length, lambda i: VTuple([VInt(i + start), item_at(i)]))
            raise Unsupported('enumerate over generator')
        if isinstance(node, ast.Call) and isinstance(node.func, ast.Name) and node.func.id == 'zip' and 'zip' not in self.env \
                and node.args and not node.keywords and not any(isinstance(a, ast.Starred) for a in node.args):
            inners = [self.eval_iter(a) for a in node.args]
            if all(i[0] == 'concrete' for i in inners):
                return ('concrete', [VTuple(list(t)) for t in zip(*[i[1] for i in inners])])
            raise Unsupported('zip over iterables of unknown length')
        v = self.eval(node)
        if hasattr(v, 'indexed'):
            length, item_at = v.indexed()
            return ('indexed', length, item_at)
        if hasattr(v, 'as_seq'):
            v = v.as_seq()
        if isinstance(v, (VTuple, VList)):
            return ('concrete', list(v.items))
        if isinstance(v, VStr):
            sv = simp(v.t)
            if z3.is_string_value(sv):
                return ('concrete', [VStr(ch) for ch in sv.as_string()]) if _plain(sv.as_string()) else \
                    ('indexed', z3.Length(v.t), lambda i: VStr(z3.SubString(v.t, i, 1)))
            return ('indexed', z3.Length(v.t), lambda i: VStr(z3.SubString(v.t, i, 1)))
        if isinstance(v, VBytes):
            return ('indexed', z3.Length(v.t), lambda i: VInt(z3.BV2Int(v.t[i])))
        if isinstance(v, VSeq):
            return ('indexed', z3.Length(v.t), lambda i: v.wrap(v.t[i]))
        if hasattr(v, 'next'):
            return ('generator', v)
        raise Unsupported(f'iteration over {type(v).__name__}')

    # ---- expressions
    def eval(self, e):
        m = getattr(self, 'ex_' + type(e).__name__, None)
        if m is None:
            raise Unsupported(f'expression {type(e).__name__} at line {getattr(e, "lineno", "?")}')
        return m(e)

    def ex_Constant(self, e):
        v = e.value
        if isinstance(v, float):
            raise Unsupported('float constant')
        return self.lift(v)

    def ex_Name(self, e):
        if e.id in self.env:
            return self.env[e.id]
        if e.id in self.contract.stubs:
            return VFunc(self.contract.stubs[e.id], e.id)
        if e.id in self.globals:
            return self.lift_global(e.id, self.globals[e.id])
        import builtins
        if hasattr(builtins, e.id):
            return VPy(getattr(builtins, e.id), e.id) if not isinstance(getattr(builtins, e.id), type) \
                else VClass(getattr(builtins, e.id))
        raise Unsupported(f'unbound name {e.id}')

    def lift_global(self, name, obj):
        if obj is None or isinstance(obj, (bool, int, bytes, str)):
            return self.lift(obj)
        if isinstance(obj, tuple) and all(isinstance(i, (bool, int, bytes, str)) or i is None for i in obj):
            return self.lift(obj)
        if isinstance(obj, type):
            return VClass(obj)
        return VPy(obj, name)

    def ex_Tuple(self, e):
        return VTuple([self.eval(i) for i in e.elts])

    def ex_List(self, e):
        items = []
        for i in e.elts:
            if isinstance(i, ast.Starred):
                sv = self.eval(i.value)
                if len(e.elts) == 1 and hasattr(sv, 'snapshot'):
                    return sv.snapshot(self)       # [*view]: a new list of the current items of a symbolic collection
                if not isinstance(sv, (VTuple, VList)):
                    raise Unsupported('starred element of unknown length in a list display')
                items.extend(sv.items)
            else:
                items.append(self.eval(i))
        return VList(items)

    def ex_JoinedStr(self, e):
        # f-string: concatenation of constants and str() of plain {expr} fields; anything with a conversion or a
        # format spec, or a field whose str() is not modelled, makes the whole string an opaque fresh value
        # (such strings occur only in messages of exceptions)
        from . import pymodels
        parts = []
        opaque = False
        for v in e.values:
            if isinstance(v, ast.Constant):
                parts.append(z3.StringVal(v.value))
            elif isinstance(v, ast.FormattedValue) and v.conversion == -1 and v.format_spec is None:
                try:
                    val = self.eval(v.value)
                    sv = pymodels.str_model(self, [val])
                    parts.append(sv.t)
                except Unsupported:
                    opaque = True
            else:
                opaque = True
        if opaque:
            return self.fresh_str('fstr')
        if not parts:
            return VStr('')
        return VStr(parts[0] if len(parts) == 1 else z3.Concat(*parts))

    def ex_IfExp(self, e):
        if self.decide(self.truth(self.eval(e.test))):
            return self.eval(e.body)
        return self.eval(e.orelse)

    def ex_BoolOp(self, e):
        is_and = isinstance(e.op, ast.And)
        val = None
        for i, sub in enumerate(e.values):
            val = self.eval(sub)
            if i == len(e.values) - 1:
                return val
            t = self.decide(self.truth(val))
            if is_and and not t:
                return val
            if not is_and and t:
                return val
        return val

    def ex_UnaryOp(self, e):
        v = self.eval(e.operand)
        if isinstance(e.op, ast.Not):
            return VBool(z3.Not(self.truth(v)))
        if isinstance(e.op, ast.USub) and isinstance(v, VInt):
            return VInt(-v.t)
        raise Unsupported('unary op')

    def ex_BinOp(self, e):
        return self.binop(e.op, self.eval(e.left), self.eval(e.right))

    def binop(self, op, a, b):
        if isinstance(a, VBool):
            a = VInt(z3.If(a.t, 1, 0))
        if isinstance(b, VBool):
            b = VInt(z3.If(b.t, 1, 0))
        if isinstance(a, VInt) and isinstance(b, VInt):
            if isinstance(op, ast.Add):
                return VInt(a.t + b.t)
            if isinstance(op, ast.Sub):
                return VInt(a.t - b.t)
            if isinstance(op, ast.Mult):
                return VInt(a.t * b.t)
            raise Unsupported(f'int operator {type(op).__name__}')
        if isinstance(op, ast.Add):
            if isinstance(a, VBytes) and isinstance(b, VBytes):
                return VBytes(z3.Concat(a.t, b.t))
            if isinstance(a, VStr) and isinstance(b, VStr):
                return VStr(z3.Concat(a.t, b.t))
            if isinstance(a, VList) and isinstance(b, VList):
                return VList(a.items + b.items)
        if isinstance(op, ast.Mult) and isinstance(a, (VBytes, VStr)) and isinstance(b, VInt):
            n = simp(b.t)
            if z3.is_int_value(n):
                t = a.t
                out = z3.Empty(a.t.sort())
                for _ in range(n.as_long()):
                    out = z3.Concat(out, t)
                return type(a)(simp(out))
        if isinstance(op, ast.Mod) and isinstance(a, VStr):
            return self.fresh_str('fmt')  # %-formatting only used for messages
        r = self.contract.binop_hook(self, op, a, b)
        if r is not None:
            return r
        raise Unsupported(f'operator {type(op).__name__} on {type(a).__name__},{type(b).__name__}')

    def ex_Compare(self, e):
        left = self.eval(e.left)
        result = None
        for op, rnode in zip(e.ops, e.comparators):
            right = self.eval(rnode)
            t = self.compare(op, left, right)
            result = t if result is None else z3.And(result, t)
            left = right
        return VBool(result)

    def compare(self, op, a, b):
        if isinstance(op, (ast.Is, ast.IsNot)):
            if isinstance(b, VNone) or isinstance(a, VNone):
                r = isinstance(a, VNone) and isinstance(b, VNone)
                if isinstance(a, VOpaque) or isinstance(b, VOpaque):
                    o = a if isinstance(a, VOpaque) else b
                    t = self.driver.uf('is_none', PyObj, z3.BoolSort())(o.t)
                    return t if isinstance(op, ast.Is) else z3.Not(t)
                return z3.BoolVal(r if isinstance(op, ast.Is) else not r)
            if a is b:
                return z3.BoolVal(isinstance(op, ast.Is))
            if isinstance(a, VBool) or isinstance(b, VBool):
                # `x is True` / `x is False`: bool singletons; any non-bool value is a different object
                if isinstance(a, VBool) and isinstance(b, VBool):
                    t = a.t == b.t
                else:
                    t = z3.BoolVal(False)
                return t if isinstance(op, ast.Is) else z3.Not(t)
            if isinstance(a, VFunc) and isinstance(b, VFunc):
                return z3.BoolVal((a.name == b.name) == isinstance(op, ast.Is))
            if isinstance(a, (VList, VObj)) and isinstance(b, (VList, VObj)):
                # mutable model objects: python identity of the model object is the identity of the modelled object
                return z3.BoolVal(isinstance(op, ast.IsNot))
            raise Unsupported('identity comparison')
        if isinstance(op, (ast.In, ast.NotIn)):
            t = self.contains(b, a)
            return t if isinstance(op, ast.In) else z3.Not(t)
        if isinstance(op, (ast.Eq, ast.NotEq)):
            t = self.equal(a, b)
            return t if isinstance(op, ast.Eq) else z3.Not(t)
        if isinstance(a, VBool):
            a = VInt(z3.If(a.t, 1, 0))
        if isinstance(b, VBool):
            b = VInt(z3.If(b.t, 1, 0))
        if isinstance(a, VInt) and isinstance(b, VInt):
            return {ast.Lt: lambda: a.t < b.t, ast.LtE: lambda: a.t <= b.t,
                    ast.Gt: lambda: a.t > b.t, ast.GtE: lambda: a.t >= b.t}[type(op)]()
        r = self.contract.compare_hook(self, op, a, b)
        if r is not None:
            return r
        raise Unsupported(f'comparison {type(op).__name__} on {type(a).__name__},{type(b).__name__}')

    def equal(self, a, b):
        if isinstance(a, VNone) or isinstance(b, VNone):
            if isinstance(a, VOpaque) or isinstance(b, VOpaque):
                o = a if isinstance(a, VOpaque) else b
                return self.driver.uf('is_none', PyObj, z3.BoolSort())(o.t)
            return z3.BoolVal(isinstance(a, VNone) and isinstance(b, VNone))
        if isinstance(a, VBool) and isinstance(b, VBool):
            return a.t == b.t
        if isinstance(a, VBool):
            a = VInt(z3.If(a.t, 1, 0))
        if isinstance(b, VBool):
            b = VInt(z3.If(b.t, 1, 0))
        for cls in (VInt, VBytes, VStr):
            if isinstance(a, cls) and isinstance(b, cls):
                return a.t == b.t
        if isinstance(a, (VInt, VBytes, VStr)) and isinstance(b, (VInt, VBytes, VStr)):
            return z3.BoolVal(False)   # different python types never compare equal here
        if isinstance(a, (VTuple, VList)) and isinstance(b, (VTuple, VList)):
            if type(a) is not type(b) or len(a.items) != len(b.items):
                return z3.BoolVal(False)
            return z3.And(*[self.equal(x, y) for x, y in zip(a.items, b.items)]) if a.items else z3.BoolVal(True)
        if isinstance(a, VFunc) and isinstance(b, VFunc):
            return z3.BoolVal(a.name == b.name)
        if isinstance(a, VOpaque) and isinstance(b, VOpaque):
            return a.t == b.t
        r = self.contract.equal_hook(self, a, b)
        if r is not None:
            return r
        raise Unsupported(f'equality of {type(a).__name__} and {type(b).__name__}')

    def contains(self, container, item):
        if isinstance(container, (VBytes, VStr)) and type(container) is type(item):
            return z3.Contains(container.t, item.t)
        if isinstance(container, VBytes) and isinstance(item, VInt):
            raise Unsupported('int in bytes')
        if isinstance(container, (VTuple, VList)):
            return z3.Or(*[self.equal(item, i) for i in container.items]) if container.items else z3.BoolVal(False)
        if isinstance(container, VMap):
            return z3.Select(container.has, container.kunwrap(item))
        r = self.contract.contains_hook(self, container, item)
        if r is not None:
            return r
        raise Unsupported(f'`in` on {type(container).__name__}')

    def ex_Subscript(self, e):
        obj = self.eval(e.value)
        if isinstance(obj, VNone):
            self.raise_(TypeError, "'NoneType' object is not subscriptable")
        if isinstance(e.slice, ast.Slice):
            if e.slice.step is not None:
                raise Unsupported('slice step')
            lo = self.eval(e.slice.lower) if e.slice.lower is not None else None
            hi = self.eval(e.slice.upper) if e.slice.upper is not None else None
            for b in (lo, hi):
                if b is not None and not isinstance(b, VInt):
                    raise Unsupported('non-int slice bound')
            if hasattr(obj, 'pyslice'):
                return obj.pyslice(self, lo, hi)
            if isinstance(obj, (VBytes, VStr)):
                return type(obj)(py_slice(obj.t, lo.t if lo else None, hi.t if hi else None))
            if isinstance(obj, VSeq):
                return VSeq(py_slice(obj.t, lo.t if lo else None, hi.t if hi else None), obj.wrap)
            if isinstance(obj, (VTuple, VList)):
                lo_c = simp(lo.t).as_long() if lo else None
                hi_c = simp(hi.t).as_long() if hi else None
                return type(obj)(obj.items[lo_c:hi_c])
            raise Unsupported(f'slice of {type(obj).__name__}')
        key = self.eval(e.slice)
        return self.getitem(obj, key)

    def getitem(self, obj, key):
        if hasattr(obj, 'getitem'):
            return obj.getitem(self, key)
        if isinstance(obj, (VTuple, VList)) and isinstance(key, VInt):
            k = simp(key.t)
            if z3.is_int_value(k):
                i = k.as_long()
                if not -len(obj.items) <= i < len(obj.items):
                    self.raise_(IndexError, 'index')
                return obj.items[i]
            raise Unsupported('symbolic index into a concrete list')
        if isinstance(obj, (VStr, VBytes, VSeq)) and isinstance(key, VInt):
            L = z3.Length(obj.t)
            if not self.decide(z3.And(key.t >= -L, key.t < L)):
                self.raise_(IndexError, 'index')
            i = z3.If(key.t < 0, key.t + L, key.t)
            if isinstance(obj, VStr):
                return VStr(z3.SubString(obj.t, i, 1))
            if isinstance(obj, VBytes):
                return VInt(z3.BV2Int(obj.t[i]))
            return obj.wrap(obj.t[i])
        if isinstance(obj, VMap):
            k = obj.kunwrap(key)
            if not self.decide(z3.Select(obj.has, k)):
                self.raise_(KeyError, 'key')
            return obj.vwrap(z3.Select(obj.val, k))
        r = self.contract.getitem_hook(self, obj, key)
        if r is not None:
            return r
        raise Unsupported(f'subscript of {type(obj).__name__}')

    def setitem(self, obj, key, val):
        if isinstance(obj, VObj) and obj.cls == 'StrDict' and isinstance(key, VStr) and z3.is_string_value(simp(key.t)):
            obj.fields[simp(key.t).as_string()] = val
            return
        if isinstance(obj, VMap):
            k = obj.kunwrap(key)
            obj.has = z3.Store(obj.has, k, z3.BoolVal(True))
            obj.val = z3.Store(obj.val, k, obj.vunwrap(val))
            return
        if self.contract.setitem_hook(self, obj, key, val):
            return
        if isinstance(obj, VList) and isinstance(key, VInt) and z3.is_int_value(simp(key.t)):
            i = simp(key.t).as_long()
            if not -len(obj.items) <= i < len(obj.items):
                self.raise_(IndexError, 'index')
            obj.items[i] = val
            return
        raise Unsupported(f'item store on {type(obj).__name__}')

    def ex_Attribute(self, e):
        obj = self.eval(e.value)
        r = self.contract.getattr_hook(self, obj, e.attr)
        if r is not None:
            return r
        if isinstance(obj, VObj):
            if e.attr in obj.fields:
                return obj.fields[e.attr]
            key = f'{obj.cls}.{e.attr}'
            if key in self.contract.stubs:
                # method contract: the receiver is passed as the first argument
                stub = self.contract.stubs[key]
                return VFunc(lambda X, args, kwargs, _o=obj, _s=stub: _s(X, [_o] + list(args), kwargs), key)
            raise Unsupported(f'unknown field {obj.cls}.{e.attr}')
        if isinstance(obj, VPy) and obj.obj is not None:
            try:
                return self.lift_global(f'{obj.name}.{e.attr}', getattr(obj.obj, e.attr))
            except AttributeError:
                raise Unsupported(f'attribute {e.attr} of {obj.name}')
        if isinstance(obj, VClass):
            return self.lift_global(e.attr, getattr(obj.pyclass, e.attr))
        # bound method of a modelled value
        return VFunc(lambda X, args, kwargs, _o=obj, _a=e.attr: X.method(_o, _a, args, kwargs), f'.{e.attr}')

    def call_args(self, e):
        args = []
        for a in e.args:
            if isinstance(a, ast.Starred):
                sv = self.eval(a.value)
                if not isinstance(sv, (VTuple, VList)):
                    raise Unsupported('star-args of unknown length')
                args.extend(sv.items)
            else:
                args.append(self.eval(a))
        kwargs = {}
        for k in e.keywords:
            if k.arg is None:
                kv = self.eval(k.value)
                if isinstance(kv, VObj) and kv.cls == 'StrDict':
                    kwargs.update(kv.fields)
                    continue
                if isinstance(kv, VDictLit):
                    # f(**{k: v ...}) with symbolic keys: handed to the callee's stub / hook as one value under the key '**'
                    kwargs['**'] = kv
                    continue
                raise Unsupported('**kwargs call')
            kwargs[k.arg] = self.eval(k.value)
        return args, kwargs

    def ex_Call(self, e):
        # stub lookup by dotted source text first (callee contracts)
        dotted = _dotted(e.func)
        if dotted and dotted in self.contract.stubs and not (isinstance(e.func, ast.Name) and e.func.id in self.env
                                                              and not isinstance(self.env[e.func.id], (VFunc, VPy))):
            args, kwargs = self.call_args(e)
            self.where = ('call', e.lineno, dotted)
            return self.contract.stubs[dotted](self, args, kwargs)
        f = self.eval(e.func)
        args, kwargs = self.call_args(e)
        self.where = ('call', e.lineno, dotted)
        if isinstance(f, VFunc):
            if f.fn is None:
                raise Unsupported(f'call of {f.name} (no contract)')
            return f.fn(self, args, kwargs)
        if isinstance(f, VClass):
            return self.construct(f.pyclass, args, kwargs)
        if isinstance(f, VPy):
            return self.builtin(f, args, kwargs)
        raise Unsupported(f'call of {type(f).__name__}')

    def construct(self, pyclass, args, kwargs):
        r = self.contract.construct_hook(self, pyclass, args, kwargs)
        if r is not None:
            return r
        if isinstance(pyclass, type) and issubclass(pyclass, BaseException):
            return VExc(pyclass, payload=args)
        if pyclass is int:
            return self.builtin(VPy(int, 'int'), args, kwargs)
        if pyclass is str:
            return self.builtin(VPy(str, 'str'), args, kwargs)
        if pyclass is bool:
            return VBool(self.truth(args[0])) if args else VBool(False)
        if pyclass is dict and not args and not kwargs:
            r = self.contract.construct_hook(self, pyclass, args, kwargs)
            if r is not None:
                return r
        if pyclass is set and not args:
            r = self.contract.construct_hook(self, pyclass, args, kwargs)
            if r is not None:
                return r
        r = self.contract.construct_hook(self, pyclass, args, kwargs)
        if r is not None:
            return r
        raise Unsupported(f'construction of {getattr(pyclass, "__name__", pyclass)}')

    def builtin(self, f, args, kwargs):
        from . import pymodels
        return pymodels.call_builtin(self, f, args, kwargs)

    def method(self, obj, name, args, kwargs):
        from . import pymodels
        return pymodels.call_method(self, obj, name, args, kwargs)

    def ex_Yield(self, e):
        v = self.eval(e.value) if e.value is not None else NONE
        self.where = ('yield', e.lineno)
        self.contract.on_yield(self, v)
        return NONE

    def ex_Lambda(self, e):
        raise Unsupported('lambda')

    def ex_GeneratorExp(self, e):
        r = self.contract.genexp_hook(self, e)
        if r is not None:
            return r
        raise Unsupported('generator expression')

    def ex_ListComp(self, e):
        r = self.contract.genexp_hook(self, e)
        if r is not None:
            return r
        return VList(self._unroll_comprehension(e, lambda: self.eval(e.elt)))

    def _unroll_comprehension(self, e, elt):
        """comprehension over iterables of statically known length: plain unrolling (its own scope for the targets)"""
        saved = dict(self.env)
        try:
            out = []

            def rec(gi):
                if gi == len(e.generators):
                    out.append(elt())
                    return
                g = e.generators[gi]
                if g.is_async:
                    raise Unsupported('async comprehension')
                it = self.eval_iter(g.iter)
                if it[0] != 'concrete':
                    raise Unsupported('comprehension over an iterable of unknown length')
                for item in it[1]:
                    self.assign(g.target, item)
                    if all(self.decide(self.truth(self.eval(c))) for c in g.ifs):
                        rec(gi + 1)
            rec(0)
            return out
        finally:
            self.env.clear()
            self.env.update(saved)

    def ex_DictComp(self, e):
        r = self.contract.genexp_hook(self, e)
        if r is not None:
            return r
        # key before value, as Python evaluates them
        return VDictLit(self._unroll_comprehension(e, lambda: (self.eval(e.key), self.eval(e.value))))

    def ex_Dict(self, e):
        if not e.keys:
            r = self.contract.construct_hook(self, dict, [], {})
            if r is not None:
                return r
            return VEmptyDict()
        if any(k is None for k in e.keys):
            raise Unsupported('dict display with ** unpacking')
        return VDictLit([(self.eval(k), self.eval(v)) for k, v in zip(e.keys, e.values)])

    def ex_Set(self, e):
        return VTuple([self.eval(i) for i in e.elts])  # only used for membership tests

    def ex_NamedExpr(self, e):
        v = self.eval(e.value)
        self.assign(e.target, v)
        return v


class VEmptyDict(Val):
    """a fresh `{}`: only good for being filled by a loop that is a dict comprehension in statement form"""


class VDictLit(Val):
    """a dict display with statically distinguishable keys; read-only (lookups must be decidable by simplification)"""
    def __init__(self, pairs):
        self.pairs = pairs

    def getitem(self, X, key):
        for k, v in reversed(self.pairs):
            eq = simp(X.equal(k, key))
            if z3.is_true(eq):
                return v
            if not z3.is_false(eq):
                raise Unsupported('dict display lookup with a key that is not statically decidable')
        X.raise_(KeyError, 'key')


class _GenExhausted(Exception):
    pass


def _plain(s):
    return all(32 <= ord(c) < 127 for c in s) and len(s) <= 8


def _dotted(node):
    parts = []
    while isinstance(node, ast.Attribute):
        parts.append(node.attr)
        node = node.value
    if isinstance(node, ast.Name):
        parts.append(node.id)
        return '.'.join(reversed(parts))
    return None


# --------------------------------------------------------------------------- contracts
class Contract:
    """base class of sidecar contracts"""
    props = ()
    file = None
    qualname = None
    stubs = {}
    loop_inv = {}
    loop_variant = {}
    ghost_const = ()
    raises = ()           # exception classes allowed to escape (default post_raise)
    assumptions = ()      # free text: trusted/assumed facts this contract relies on
    expected_labels = ()  # obligation labels that must be generated (vacuity guard)
    defaults = {}         # parameter -> source text of its default value, where the property depends on it
    max_paths = 400

    def pre(self, X):
        return {}

    def post(self, X, ret):
        pass

    def post_raise(self, X, exc):
        allowed = tuple(self.raises)
        ok = exc.pyclass is not None and allowed and issubclass(exc.pyclass, allowed)
        X.prove('raises.only_allowed', z3.BoolVal(bool(ok)))

    def on_yield(self, X, val):
        raise Unsupported('yield without a generator contract')

    def delitem_hook(self, X, obj, key):
        """`del obj[key]`: return True when handled"""
        return None

    def havoc_override(self, X, k, name):
        return None

    loop_frozen_ghost = {}   # loop ordinal -> ghost names that the loop does not change (not havoced at its head)

    def before_loop(self, X, k):
        """ghost snapshots taken when control reaches loop k (before the invariant is checked on entry)"""

    def end_of_body(self, X, k):
        """obligations / ghost updates at the end of one iteration of loop k (before the invariant is re-checked)"""

    def after_loop(self, X, k, how):
        """obligations at the exit of loop k; how = 'break' | 'guard'"""

    def after_havoc(self, X, k):
        pass

    def loop_head(self, X, k):
        """snapshot hook: called at the head of the generic iteration, after the invariant has been assumed"""

    def getattr_hook(self, X, obj, attr):
        return None

    def setattr_hook(self, X, obj, attr, val):
        return None

    def getitem_hook(self, X, obj, key):
        return None

    def setitem_hook(self, X, obj, key, val):
        return False

    def setslice_hook(self, X, target, val):
        return False

    def equal_hook(self, X, a, b):
        return None

    def compare_hook(self, X, op, a, b):
        return None

    def binop_hook(self, X, op, a, b):
        return None

    def contains_hook(self, X, container, item):
        return None

    def construct_hook(self, X, pyclass, args, kwargs):
        return None

    def genexp_hook(self, X, node):
        return None

    def raise_hook(self, X, v):
        return None

    def nonlocal_hook(self, X, names):
        raise Unsupported('nonlocal')

    def unknown_exc_matches(self, X, exc, pyclasses):
        raise Unsupported('exception of unknown class reaches an except clause')

    def model_to_case(self, ob, model):
        """turn a counter-model of a failed obligation into a bounded-harness case (or None)"""
        return None


# --------------------------------------------------------------------------- driver
class Driver:
    """enumerates all paths of one function under one contract and collects obligations"""

    def __init__(self, contract, repo, module_globals=None):
        self.contract = contract
        self.repo = repo
        self.src = Source(repo, contract.file, contract.qualname)
        self.loops = loops_of(self.src.node)
        contract._driver = self      # lets a contract key its loop invariants by what a loop iterates over, not by its ordinal
        self.module_globals = module_globals if module_globals is not None else {}
        self.pending = []
        self.obligations = {}
        self.paths = 0
        self.unsupported = []
        self._ufs = {}

    def uf(self, name, *sorts):
        if name not in self._ufs:
            self._ufs[name] = z3.Function(name, *sorts)
        return self._ufs[name]

    def schedule(self, script):
        self.pending.append(script)

    def add_obligation(self, ob):
        if ob.key not in self.obligations:
            self.obligations[ob.key] = ob

    def run(self):
        self.pending = [[]]
        while self.pending:
            script = self.pending.pop()
            self.paths += 1
            if self.paths > self.contract.max_paths:
                self.unsupported.append(f'path budget of {self.contract.max_paths} exceeded')
                break
            x = X(self, script)
            try:
                x.run_function()
            except PathEnd:
                pass
            except Unsupported as u:
                self.unsupported.append(f'{u} [path {x.taken}]')
            except (_Break, _Continue):
                self.unsupported.append('break/continue outside loop')
        self._signature_obligations()
        return list(self.obligations.values())

    def _signature_obligations(self):
        """the body is verified for ALL argument values, so the values the function takes when the caller gives none are outside the
        body proof: a contract lists the defaults its property depends on (`defaults = {param: source text}`) and each becomes an
        obligation of its own (decided by comparing the source text of the default expression)"""
        want = getattr(self.contract, 'defaults', None)
        if not want:
            return
        a = self.src.node.args
        pos = a.posonlyargs + a.args
        have = {p.arg: ast.unparse(d) for p, d in zip(pos[len(pos) - len(a.defaults):], a.defaults)}
        have.update({p.arg: ast.unparse(d) for p, d in zip(a.kwonlyargs, a.kw_defaults) if d is not None})
        for name, src in want.items():
            self.add_obligation(Obligation(f'signature.default_of_{name}_is_{src}', [], z3.BoolVal(have.get(name) == src), 'prove',
                                           ('line', self.src.lineno), []))
