"""Discharging obligations: z3 (python API, from SMT-LIB text) first, cvc5 CLI for what z3 leaves open.

unsat  -> discharged          sat -> failed (counter-model exists)        unknown/timeout -> undecided
"""
import multiprocessing as mp
import os
import re
import subprocess
import tempfile
import time

# z3 either answers within milliseconds or not at all on these VCs: short first attempt, then cvc5, then z3 again (long)
Z3_TIMEOUT_MS = int(os.environ.get('PYVC_Z3_TIMEOUT_MS', '4000'))
Z3_LONG_TIMEOUT_MS = int(os.environ.get('PYVC_Z3_LONG_TIMEOUT_MS', '60000'))
CVC5_TIMEOUT_MS = int(os.environ.get('PYVC_CVC5_TIMEOUT_MS', '60000'))
CVC5 = '/usr/bin/cvc5'


def _z3_check(smt2, timeout_ms):
    import z3
    s = z3.Solver()
    s.set('timeout', timeout_ms)
    s.from_string(smt2)
    t = time.time()
    from .engine import bounded_check
    r = bounded_check(s, timeout_ms)          # z3's own timeout is not always honoured: a watchdog interrupts at 2x
    dt = time.time() - t
    reason = ''
    if r == z3.unknown:
        try:
            reason = s.reason_unknown()
        except Exception:
            reason = 'interrupted'
    return str(r), dt, reason


def _cvc5_check(smt2, timeout_ms):
    text = smt2
    if '(set-logic' not in text:
        text = '(set-logic ALL)\n' + text
    with tempfile.NamedTemporaryFile('w', suffix='.smt2', prefix='pyvc-', delete=False) as f:
        f.write(text)
        path = f.name
    t = time.time()
    try:
        p = subprocess.run([CVC5, '--strings-exp', f'--tlimit={timeout_ms}', path],
                           capture_output=True, text=True, timeout=timeout_ms / 1000 + 10)
        out = (p.stdout or '').strip().splitlines()
        r = out[0].strip() if out else 'unknown'
        if r not in ('sat', 'unsat', 'unknown'):
            r = 'unknown'
        reason = (p.stderr or '')[:200]
    except subprocess.TimeoutExpired:
        r, reason = 'unknown', 'cvc5 wall timeout'
    finally:
        os.unlink(path)
    return r, time.time() - t, reason


def _solve_one(job):
    idx, kind, smt2, both = job
    res = {'idx': idx, 'backend': 'z3', 'z3': None, 'cvc5': None}
    try:
        r, dt, reason = _z3_check(smt2, Z3_TIMEOUT_MS)
    except Exception as e:  # parse error etc. -> undecided, never a verdict
        r, dt, reason = 'unknown', 0.0, f'z3 error: {e}'
    res['z3'] = (r, round(dt, 3), reason)
    verdict = r
    if r == 'unknown' or both:
        try:
            r2, dt2, reason2 = _cvc5_check(smt2, CVC5_TIMEOUT_MS)
        except Exception as e:
            r2, dt2, reason2 = 'unknown', 0.0, f'cvc5 error: {e}'
        res['cvc5'] = (r2, round(dt2, 3), reason2)
        if r == 'unknown' and r2 != 'unknown':
            verdict = r2
            res['backend'] = 'cvc5'
        elif r != 'unknown' and r2 != 'unknown' and r != r2:
            verdict = 'disagree'
        elif r == 'unknown' and r2 == 'unknown':
            try:
                r3, dt3, reason3 = _z3_check(smt2, Z3_LONG_TIMEOUT_MS)
            except Exception as e:
                r3, dt3, reason3 = 'unknown', 0.0, f'z3 error: {e}'
            res['z3'] = (r3, round(dt + dt3, 3), reason3)
            verdict = r3
    res['verdict'] = verdict
    res['time'] = (res['z3'][1] if res['z3'] else 0) + (res['cvc5'][1] if res['cvc5'] else 0)
    return res


def solve_all(obligations, jobs=16, both=False):
    """obligations: list of engine.Obligation.  Returns list of result dicts in the same order with
    keys verdict in {'unsat','sat','unknown','disagree'}, backend, time."""
    work = [(i, ob.kind, ob.smt2(), both) for i, ob in enumerate(obligations)]
    if not work:
        return []
    ctx = mp.get_context('fork')
    n = min(jobs, len(work))
    # every job is bounded by its solver timeouts (short z3, cvc5, long z3); a solver that ignores its timeout must not hang the
    # check: the pool is given a wall-clock deadline derived from those budgets, and what has not come back by then is `unknown`
    per_job = (Z3_TIMEOUT_MS * 2 + CVC5_TIMEOUT_MS + Z3_LONG_TIMEOUT_MS * 2) / 1000.0 + 30
    deadline = time.time() + per_job * (-(-len(work) // n)) + 60
    out = {}
    pool = ctx.Pool(n)
    try:
        pending = [(w[0], pool.apply_async(_solve_one, (w,))) for w in work]
        for idx, ar in pending:
            try:
                out[idx] = ar.get(timeout=max(0.1, deadline - time.time()))
            except mp.TimeoutError:
                out[idx] = {'idx': idx, 'backend': 'z3', 'z3': ('unknown', 0.0, 'solver did not come back before the deadline (killed)'),
                            'cvc5': None, 'verdict': 'unknown', 'time': 0.0}
            except Exception as e:      # a worker that died
                out[idx] = {'idx': idx, 'backend': 'z3', 'z3': ('unknown', 0.0, f'worker error: {e!r}'), 'cvc5': None,
                            'verdict': 'unknown', 'time': 0.0}
    finally:
        pool.terminate()
        pool.join()
    return [out[i] for i in sorted(out)]
