"""CPython cross-check of the expression semantics encoded in pyvc (slices with clamping and negative indices, comparisons,
truthiness, and/or value semantics, conditional expressions, bytes/str methods, min/max, int arithmetic).

Every template expression is put into a one-line function, symbolically executed by the real engine with CONCRETE argument
values (so exactly one path is feasible), the resulting z3 term is evaluated, and the value is compared with what CPython
computes for the same arguments.  A disagreement is a fault of the machinery (exit 3), never a verdict about the repository.
"""
import os
import random
import re
import tempfile

import z3

from .engine import Contract, Driver, VInt, VBool, VBytes, VStr, VNone, VTuple, VList, Unsupported, bounded_check

EVAL_TIMEOUT_MS = 10000


class _NotEvaluated(Exception):
    pass

TEMPLATES_BYTES = [
    'a[i:j]', 'a[i:]', 'a[:j]', 'a[-2:]', 'a[:-1]', 'a[i:i + 2]', 'a[j:i]', 'a + b', 'a == b', 'a != b', 'b in a', 'b not in a',
    'a.startswith(b)', 'a.endswith(b)', 'len(a)', 'not a', 'a[i:i + 1] == b', 'a.find(b)', 'len(a[i:j])', 'a[i:j] + b[j:]',
    '(a if i < j else b)', 'a and b', 'a or b', 'bool(a)', 'a[i:j] == b[i:j]', 'min(i, j)', 'max(i, j, 3)', 'i - j', 'i * 2 + j',
    'i < j <= 5', 'i == j', 'not i', 'len(a) - i', 'a[len(a) - 1:]', 'a.split(b"x", 1)[0]', 'a.split(b"x")[-1]', 'a.split(b"x")[0]', 'len(a.split(b"x", 1))', 'b * 2',
    'a[i:j] == b"" ', '-i', 'i >= j or a == b', 'i > 0 and j > 0', 'a.strip(b"x")', 'a.lstrip(b"x")', 'a.rstrip(b"x")', 'a.rstrip(b"x/")',
    'a.lstrip(b"/x") + b',
]
TEMPLATES_STR = [re.sub(r'b("[^"]*")', r'\1', t) for t in TEMPLATES_BYTES] + ['a[i:j] in b', '"x" in a', 'a[0:1] == "x"']


class _Concrete(Contract):
    file = None
    qualname = 'f'
    props = ()

    def __init__(self, relfile, binding):
        self.file = relfile
        self.binding = binding
        self.result = ('none',)

    def pre(self, X):
        out = {}
        for k, v in self.binding.items():
            out[k] = VInt(v) if isinstance(v, int) else (VBytes(v) if isinstance(v, bytes) else VStr(v))
        return out

    def post(self, X, ret):
        self.result = ('ret', ret)
        self.pc = list(X.pc)      # relational models (fresh value + constraints) are evaluated under the path condition

    def post_raise(self, X, exc):
        self.result = ('raise', exc.pyclass)


def _concretise(v, pc=()):
    if isinstance(v, VNone):
        return None
    if isinstance(v, (VTuple, VList)):
        return type([] if isinstance(v, VList) else ())(_concretise(i, pc) for i in v.items)
    t = z3.simplify(v.t)
    if not (z3.is_int_value(t) or z3.is_true(t) or z3.is_false(t) or z3.is_string_value(t)):
        # a ground term that simplify() leaves unevaluated (e.g. IndexOf over unit sequences): ask a solver for its value
        sv = z3.Solver()
        sv.set('timeout', EVAL_TIMEOUT_MS)
        k = z3.FreshConst(t.sort(), 'val')
        sv.add(k == t)
        sv.add(*pc)
        r = bounded_check(sv, EVAL_TIMEOUT_MS)
        if r == z3.sat:
            t = z3.simplify(sv.model().eval(k, model_completion=True))
        elif r == z3.unknown:
            raise _NotEvaluated()
    if isinstance(v, VInt):
        return t.as_long() if z3.is_int_value(t) else ('?', str(t))
    if isinstance(v, VBool):
        return True if z3.is_true(t) else False if z3.is_false(t) else ('?', str(t))
    if isinstance(v, VStr):
        return t.as_string() if z3.is_string_value(t) else ('?', str(t))
    if isinstance(v, VBytes):
        from vlib.modelutil import as_bytes
        s = z3.Solver()
        s.set('timeout', EVAL_TIMEOUT_MS)
        k = z3.FreshConst(t.sort(), 'val')
        s.add(k == t)          # ground term: its value is whatever the solver's theory says it is
        s.add(*pc)
        r = bounded_check(s, EVAL_TIMEOUT_MS)
        if r == z3.unknown:
            raise _NotEvaluated()
        if r != z3.sat:
            return ('?', str(t))
        r = as_bytes(s.model(), k)
        return r if r is not None else ('?', str(t))
    return ('?', type(v).__name__)


def run(n_per_template=12, seed=0):
    rnd = random.Random(seed)
    d = tempfile.mkdtemp(prefix='pyvc-xcheck-', dir=os.path.join(os.path.dirname(os.path.dirname(os.path.abspath(__file__))), 'replays')
                         if os.path.isdir(os.path.join(os.path.dirname(os.path.dirname(os.path.abspath(__file__))), 'replays')) else None)
    checked, disagreements, unsupported = 0, [], 0
    try:
        for kind, templates in (('bytes', TEMPLATES_BYTES), ('str', TEMPLATES_STR)):
            for ti, expr in enumerate(templates):
                fn = os.path.join(d, f'x_{kind}_{ti}.py')
                with open(fn, 'w') as f:
                    f.write(f'def f(a, b, i, j):\n    return {expr}\n')
                for _ in range(n_per_template):
                    alpha = 'xy-' if kind == 'str' else b'xy-'
                    mk = (lambda n: ''.join(rnd.choice(alpha) for _ in range(n))) if kind == 'str' else \
                        (lambda n: bytes(rnd.choice(alpha) for _ in range(n)))
                    binding = {'a': mk(rnd.randrange(0, 6)), 'b': mk(rnd.randrange(0, 3)), 'i': rnd.randrange(-3, 7), 'j': rnd.randrange(-3, 7)}
                    try:
                        want = ('ret', eval(expr, {}, dict(binding)))
                    except Exception as e:   # noqa
                        want = ('raise', type(e))
                    c = _Concrete(os.path.basename(fn), binding)
                    drv = Driver(c, d, {})
                    drv.run()
                    if drv.unsupported:
                        unsupported += 1
                        continue
                    got = c.result
                    if got[0] == 'ret':
                        try:
                            got = ('ret', _concretise(got[1], getattr(c, 'pc', ())))
                        except _NotEvaluated:
                            # the solver did not evaluate the (relational) model within its budget: nothing compared, not a disagreement
                            unsupported += 1
                            continue
                    checked += 1
                    w = want
                    if w[0] == 'ret' and isinstance(w[1], bool) and got[0] == 'ret' and isinstance(got[1], bool):
                        pass
                    if got != w:
                        disagreements.append({'expr': expr, 'args': {k: (v.decode('latin1') if isinstance(v, bytes) else v) for k, v in binding.items()},
                                              'cpython': repr(want), 'pyvc': repr(got)})
    finally:
        for f in os.listdir(d):
            os.unlink(os.path.join(d, f))
        os.rmdir(d)
    return {'checked': checked, 'unsupported': unsupported, 'disagreements': disagreements[:10], 'n_disagreements': len(disagreements)}


if __name__ == '__main__':
    import json
    import sys
    sys.path.insert(0, os.path.dirname(os.path.dirname(os.path.abspath(__file__))))
    print(json.dumps(run(), indent=1)[:3000])
