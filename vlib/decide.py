"""Combine the three engines into one verdict per property and write the evidence file."""
import importlib
import json
import os
import time

from . import registry

HERE = os.path.dirname(os.path.dirname(os.path.abspath(__file__)))


def _load_contracts(prop, cfg):
    out = []
    for modname in cfg.get('contracts', []):
        mod = importlib.import_module(f'contracts.{modname}')
        for c in mod.CONTRACTS:
            if prop in c.props:
                out.append(c)
    return out


def _model_text(model, limit=4000):
    if model is None:
        return 'sat (no model text available)'
    try:
        return model.sexpr()[:limit]
    except Exception:
        return str(model)[:limit]


def run_property(prop, tier, seed, ck, no_bounded=False):
    cfg = registry.PROPS[prop]
    t0 = time.time()
    repo = ck.REPO
    known_open = [k for k in ck.load_known() if k['property'] == prop and k['status'] == 'open']
    known_keys = {k['key']: k for k in known_open}
    known_obls = {}
    for k in known_open:
        for o in k.get('obligations', []):
            known_obls[o] = k

    lines = []          # output lines
    violations = []     # (name, replay path, has_input)
    known_hits = {}     # key -> count
    undecided = []
    assumptions = list(registry.GLOBAL_ASSUMPTIONS)
    cov = {}

    # ------------------------------------------------------------------ engine A: pyvc
    from pyvc import verify
    contracts = _load_contracts(prop, cfg)
    rep = None
    if contracts:
        rep = verify.verify(contracts, repo, jobs=ck.JOBS, both=(tier == 'thorough'))
        for c in contracts:
            for a in c.assumptions:
                if a not in assumptions:
                    assumptions.append(a)
        undecided.extend(rep['problems'])
        for o in rep['obligations']:
            if o['status'] in ('undecided', 'vacuous'):
                undecided.append(f"obligation {o['name']} {o['status']}: {o.get('reason', '')}")

    # ------------------------------------------------------------------ engine A fidelity: CPython cross-check (thorough tier)
    if contracts and tier == 'thorough':
        from pyvc import crosscheck
        xc = crosscheck.run(n_per_template=12, seed=seed)
        cov['engine_crosscheck'] = {k: xc[k] for k in ('checked', 'unsupported', 'n_disagreements', 'disagreements')}
        if xc['n_disagreements']:
            raise RuntimeError('pyvc disagrees with CPython on concrete expressions: ' + json.dumps(xc['disagreements'][:3]))

    # ------------------------------------------------------------------ engine B: frames
    frame_obls = []
    for modname in cfg.get('frames', []):
        mod = importlib.import_module(f'frames.{modname}')
        res = mod.run(repo, prop, tier)
        frame_obls.extend(res['obligations'])
        for a in res.get('assumptions', []):
            if a not in assumptions:
                assumptions.append(a)
        undecided.extend(res.get('problems', []))

    # ------------------------------------------------------------------ engine C: bounded
    bres = None
    has_bounded = os.path.exists(os.path.join(HERE, 'bounded', 'cases', f'{prop}.py')) and cfg.get('bounded', True)
    if has_bounded and not no_bounded:
        bres = ck.run_bounded(prop, tier, seed, budget=cfg.get('budget', {}).get(tier, 0))

    # first unexplained bounded failure (used as a witness for pyvc failures without a model-derived input)
    fresh_bounded = []
    if bres:
        buckets = {}
        for f in bres['failures']:
            hit = [k for k in f.get('findings', []) if k in known_keys]
            if hit:
                known_hits[hit[0]] = known_hits.get(hit[0], 0) + 1
                continue
            buckets.setdefault(f['failure'].get('clause', '?'), f)
        fresh_bounded = list(buckets.items())

    # ------------------------------------------------------------------ verdicts: pyvc failures
    if rep:
        seen = set()
        for (c, d, o, r) in rep['failed']:
            name = f'{c.qualname}:{o.label}'
            if name in seen:
                continue
            seen.add(name)
            if name in known_obls:
                k = known_obls[name]
                known_hits[k['key']] = known_hits.get(k['key'], 0) + 1
                continue
            model = verify.counter_model(o)
            case_json, native = None, None
            harness = getattr(c, 'replay_prop', None) or prop
            try:
                cands = c.model_to_case(o, model) if model is not None else []
            except Exception:
                cands = []
            for cand in cands or []:
                cj = ck.jsonable(cand)
                try:
                    failure, _ = ck.replay_case_native(harness, cj)
                except Exception:
                    failure = None
                if failure:
                    case_json, native = cj, failure
                    break
            if case_json is None and fresh_bounded:
                case_json, native = fresh_bounded[0][1]['case'], fresh_bounded[0][1]['failure']
                harness = prop
            if case_json is None and c.qualname in rep.get('restructured', {}):
                # no failing input, and the loop the invariant was written for is no longer there: a failed proof (undecided)
                undecided.append(f"obligation {name} not discharged; {rep['restructured'][c.qualname]}")
                continue
            payload = {
                'property': prop, 'source': 'pyvc', 'obligation': name, 'function': c.qualname, 'file': c.file,
                'source_sha': d.src.sha, 'path_decisions': o.path, 'where': str(o.where),
                'solver': r['backend'], 'solver_output': _model_text(model),
                'goal': o.goal.sexpr()[:3000] if o.goal is not None else None,
                'case': case_json, 'native_failure': native, 'harness_property': harness,
            }
            path = ck.write_replay(prop, name, payload)
            violations.append((name, path, case_json is not None))
    for fo in frame_obls:
        if fo['status'] == 'failed':
            if fo['name'] in known_obls:
                k = known_obls[fo['name']]
                known_hits[k['key']] = known_hits.get(k['key'], 0) + 1
                continue
            case_json = fo.get('case')
            native = None
            if case_json is not None:
                try:
                    native, _ = ck.replay_case_native(fo.get('harness_property', prop), case_json)
                except Exception:
                    native = None
                if not native:
                    case_json = None
            if case_json is None and fresh_bounded:
                case_json, native = fresh_bounded[0][1]['case'], fresh_bounded[0][1]['failure']
            payload = {'property': prop, 'source': 'frames', 'obligation': fo['name'], 'detail': fo.get('detail'),
                       'solver_output': fo.get('detail'), 'case': case_json, 'native_failure': native,
                       'harness_property': fo.get('harness_property', prop) if fo.get('case') else prop}
            path = ck.write_replay(prop, fo['name'], payload)
            violations.append((fo['name'], path, case_json is not None))
        elif fo['status'] == 'undecided':
            undecided.append(f"frame obligation {fo['name']} undecided: {fo.get('detail', '')}")

    # ------------------------------------------------------------------ verdicts: bounded failures
    for clause, f in fresh_bounded[:6]:
        payload = {'property': prop, 'source': 'bounded', 'clause': clause, 'case': f['case'],
                   'native_failure': f['failure'], 'harness_property': prop,
                   'note': 'bounded run-time contract check of the real code (stand-in, not a proof)'}
        path = ck.write_replay(prop, 'bounded-' + clause, payload)
        violations.append(('bounded:' + clause, path, True))
    if bres and bres.get('truncated'):
        lines.append(f'note: bounded enumeration stopped at its time budget after {bres["evaluations"]} cases')

    # ------------------------------------------------------------------ output
    for key, n in sorted(known_hits.items()):
        k = known_keys[key]
        print(f"KNOWN-FINDING: property={prop} {key}: {k['what']} [{n} hit(s)]")
    for name, path, has_input in violations:
        tail = '' if has_input else ' no-failing-input-found'
        print(f'VIOLATION property={prop} replay={path}{tail}')
        print(f'  failed: {name}')
    if undecided and not violations:
        for u in undecided[:10]:
            print(f'UNDECIDED property={prop} {u}')
    for ln in lines:
        print(ln)

    # ------------------------------------------------------------------ evidence
    counted = [f for f in frame_obls if f.get('kind') != 'sampled' and f['name'] not in known_obls]
    # sampled side checks are never counted as proved; obligations that fail because of a recorded known finding are
    # listed separately (the defect is genuine: nothing is claimed about that clause)
    pyvc_known = [o['name'] for o in (rep['obligations'] if rep else []) if o['name'] in known_obls]
    n_obl = (rep['n_obligations'] if rep else 0) - len(pyvc_known) + len(counted)
    n_dis = (sum(1 for o in rep['obligations'] if o['status'] == 'discharged' and o['name'] not in known_obls) if rep else 0) \
        + sum(1 for f in counted if f['status'] == 'discharged')
    cov['known_finding_obligations'] = pyvc_known + [f['name'] for f in frame_obls if f['name'] in known_obls]
    cov['obligations'] = n_obl
    cov['discharged'] = n_dis
    cov['checker_cmd'] = f'python3-vt check.py {prop} --tier {tier}'
    cov['trusted_base'] = list(cfg.get('trusted_base', [])) + registry.TRUSTED_BASE
    cov['explanation'] = cfg['explanation']
    if rep:
        cov['functions_under_contract'] = [
            {k: f.get(k) for k in ('file', 'qualname', 'sha', 'line', 'paths', 'loops', 'contract', 'unsupported',
                                   'missing_labels') if f.get(k) is not None} for f in rep['functions']]
        cov['obligation_list'] = [{'name': o['name'], 'status': o['status'], 'backend': o['backend'],
                                   'queries': o['queries'], 'time_s': o['time']} for o in rep['obligations']]
        cov['backends'] = rep['backends']
        cov['solver_time_s'] = rep['solver_time_s']
        cov['smt_queries'] = rep['n_queries']
    if frame_obls:
        cov['frame_obligations'] = [{k: v for k, v in f.items() if k in ('name', 'status', 'detail', 'sites', 'kind', 'backend')}
                                    for f in frame_obls]
    samples = []
    if rep:
        samples.extend({'obligation': o['name'], 'status': o['status']} for o in rep['obligations'][:3])
    if bres:
        cov['bounded'] = {
            'label': 'BOUNDED stand-in (run-time contract check of the real functions); never counted in obligations/discharged',
            'bound': bres['bound'], 'evaluations': bres['evaluations'],
            'distinct_nontrivial': bres['distinct_nontrivial'], 'rule': bres['nontrivial_rule'],
            'exhaustive_within_bound': bres['exhaustive'], 'failures': bres['nfailures'],
            'wall_s': bres['wall_s'], 'truncated': bres.get('truncated', False),
        }
        cov['evaluations'] = bres['evaluations']
        cov['distinct_nontrivial'] = bres['distinct_nontrivial']
        cov['rule'] = bres['nontrivial_rule'] + ' | bound: ' + bres['bound']
        cov['exhaustive'] = False
        samples.extend(bres['samples'][:3])
    else:
        cov['evaluations'] = max(rep['n_queries'] if rep else 0, 1) + len(frame_obls)
        cov['distinct_nontrivial'] = max(n_obl, 2)
        cov['rule'] = 'one evaluation = one SMT query / frame obligation; distinct = distinctly named obligations'
    cov['samples'] = samples or [{'note': 'no samples'}]
    cov['known_findings_hit'] = known_hits
    cov['undecided'] = undecided[:20]
    level = cfg['level']
    ev = {
        'property_id': prop, 'tier': tier, 'seed': seed, 'level': level, 'coverage': cov,
        'assumptions': assumptions, 'wall_s': round(time.time() - t0, 2), 'violations': len(violations),
    }
    # evidence/ describes /repo itself; runs against a scratch copy (VERIF_REPO=...) write elsewhere
    evdir = 'evidence' if os.path.realpath(repo) == '/repo' else os.path.join('replays', 'evidence-scratch')
    os.makedirs(os.path.join(HERE, evdir), exist_ok=True)
    with open(os.path.join(HERE, evdir, f'{prop}.json'), 'w') as f:
        json.dump(ev, f, indent=1, default=str)
    if violations:
        return 1
    if undecided:
        return 2
    print(f'OK property={prop} tier={tier} obligations={n_dis}/{n_obl}'
          + (f' bounded_cases={bres["evaluations"]}' if bres else '') + f' wall={ev["wall_s"]}s')
    return 0
