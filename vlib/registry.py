"""Per-property configuration: which contracts / frame checks / bounded module decide it, the level claimed."""

GLOBAL_ASSUMPTIONS = [
    'pyvc (the VC generator in /verif/pyvc: value models, slice semantics, loop cutting) and the SMT solvers are trusted',
    'Python ints are unbounded: no machine arithmetic is involved anywhere in the verified code',
    'names resolve to the definitions in the repository module (no monkey-patching, builtins not shadowed)',
]
TRUSTED_BASE = ['pyvc VC generator', 'z3 5.1', 'cvc5 1.0.3 (only for queries z3 leaves open)', 'CPython 3.12 semantics as modelled']

PROPS = {
    'C04': dict(
        level='proof',
        contracts=['C04', 'body_read'],
        frames=[],
        technique='deductive: loop-invariant VCs generated from the real AST of _iter_body/_body_read, discharged by z3/cvc5; '
                  'bounded run-time contract check as replay harness',
        explanation='VCs over the real source of the Content-Length reader: invariant (delivered++stream == stream0, '
                    'accounting, within Content-Length), exactness postcondition, read-argument bound, termination variant.',
        level_text='Proof: every VC generated from the current source of _iter_body / _body_read under the stated contracts is '
                   'discharged (all inputs, all fragmentations, all iteration counts); the bounded contract run is the replay harness.',
        level_note='Assumes the server read(n) contract (PEP 3333), io.BytesIO/TemporaryFile library contract, buff_size >= 1; trusts pyvc and the solvers.',
        trusted_base=['server read(n) contract (PEP 3333)', 'io.BytesIO/TemporaryFile write/getvalue (library contract)'],
    ),
    'C05': dict(
        level='proof',
        contracts=['C05', 'body_read'],
        frames=[],
        technique='deductive: loop-invariant VCs over ghost stream state generated from the real AST of _iter_chunked / _body_read, '
                  'z3 then cvc5; bounded run-time contract check against an RFC 7230 reference decoder as replay harness',
        explanation='VCs over the real source of the chunked reader: per chunk exactly n payload bytes are consumed, yielded in '
                    'order and followed by CRLF; a size line is accepted only up to its first CRLF within the buffer; normal exit '
                    'only after a zero-size line; every raise is a BodyParsingError justified by the stream (EOF, over-long line, '
                    'unparsable size, missing CRLF), never by read fragmentation; all three loops terminate.',
        level_text='Proof of the per-chunk contract, the exit condition, the exception frame and the fragmentation-independence of '
                   'rejection for all streams, buffers and read fragmentations; the composition over chunks is carried by the ghost '
                   'accumulation in the outer invariant; agreement with an independent RFC 7230 decoder is checked bounded.',
        level_note='Assumes the server read(n) contract (PEP 3333), int(b,16) as a partial function, buff_size >= 1; trusts pyvc and the solvers. '
                   'Equality with the reference decoder (what counts as a legal size line) is bounded, not proved.',
        trusted_base=['server read(n) contract (PEP 3333)', 'int(bytes, 16) partial-function abstraction'],
    ),
    'C13': dict(
        level='proof',
        contracts=['body_read', 'C04', 'C05'],
        frames=[],
        technique='deductive: loop-invariant VCs from the real AST of _body_read (limit, spooling, content) on top of the proved '
                  'generator contracts of _iter_body/_iter_chunked (part size <= buffer); bounded run-time check as replay harness',
        explanation='VCs over _body_read: BodySizeError is raised iff the accumulated size exceeds max_body_size at a part boundary, '
                    'at that moment at most limit + one buffer of payload was taken; spooled to a TemporaryFile iff size > threshold, '
                    'content identical; parts are bounded by the buffer (proved on the generators).',
        level_text='Proof for the reader (_body_read and both generators): size limit, one-buffer overshoot bound, spool switch and '
                   'content equality for all inputs; the mapping to 413 and the form-text budget are checked by VCs on _raise / '
                   '_get_body_string / FieldStorage.read where contracted, otherwise bounded.',
        level_note='Assumes io.BytesIO/TemporaryFile library contract, max_body_size None or >= 0, buff_size >= 1; trusts pyvc and the solvers.',
        trusted_base=['server read(n) contract (PEP 3333)', 'io.BytesIO/TemporaryFile write/getvalue (library contract)'],
    ),
    'C14': dict(
        level='proof',
        contracts=['C14'],
        frames=['codec_lemma'],
        technique='deductive: VCs from the real AST of _hval, HeaderDict.__setitem__/append/setdefault, HeaderProperty.__set__, '
                  'BaseResponse.__init__ (data-structure invariant Clean(dict)); complete per-code-point enumeration of the emission '
                  'transcoding; bounded run-time contract check of headerlist',
        explanation='_hval accepts exactly None/str/int/float/bool, rejects CR/LF/NUL, returns str(value); every single-value '
                    'setter stores only _hval results (Clean(dict) preserved for all arguments); callers reach the dictionary only '
                    'through the guarded setters; the UTF-8->Latin-1 transcoding of headerlist is wire-safe and invertible for every code point.',
        level_text='Proof that a value with CR/LF/NUL is rejected by every single-value setter and never stored (all values, all types); '
                   'complete enumeration for the codec clause. That headerlist emits exactly the stored values (order, multi-values, '
                   '204/304 blacklist) is decided by the bounded contract check only.',
        level_note='Assumes str(int)/str(float) are control-character free, codecs are concatenation homomorphisms; a list offered to '
                   'setdefault is stored unguarded (outside the statement: single-value setters). headerlist clause: bounded.',
        trusted_base=['Clean(dict) holds on entry of every setter (re-established by every contracted writer)'],
    ),
    'C15': dict(
        level='proof',
        contracts=['C15'],
        frames=[],
        technique='deductive: VCs from the real AST of _lscmp, cookie_is_encoded, cookie_decode (pickle.loads dominated by the signature '
                  'equality), cookie_encode (+ inverse lemma from library axioms), get_cookie; bounded run-time check of the SimpleCookie '
                  'transport and of exhaustive single-position tampering (instrumented unpickler) as replay harness',
        explanation='pickle.loads is reached only on paths where data = "!" sig "?" msg and sig == b64(HMAC_md5(key, msg)), with argument '
                    'b64decode(msg); every other path returns None without deserialising; _lscmp(a,b) <=> a == b; decode(encode(d,k),k) == d '
                    'from the library axioms; get_cookie returns a signed payload only through the verified pair whose name equals the key.',
        level_text='Proof of verify-before-unpickle and of the signed round trip for all inputs, relative to the cryptographic assumption '
                   'A-HMAC (listed); the unsigned transport through http.cookies.SimpleCookie is library code and is decided bounded only.',
        level_note='A-HMAC (no forgery without the key) is an assumption, not provable. hmac/base64/pickle are uninterpreted with the stated axioms. '
                   'Unsigned round trip through SimpleCookie: bounded; two known findings (empty value, code points above U+00FF).',
        trusted_base=['A-HMAC', 'pickle/base64 inverse axioms', 'sum/zip/generator-expression semantics as stated'],
    ),
    'C16': dict(
        level='proof',
        contracts=['static_file'],
        frames=[],
        technique='deductive: path-sensitive VCs from the real AST of static_file: every file-system access is dominated by the prefix '
                  'test of the normalised name against the normalised root + separator; bounded check on a real directory tree as replay harness',
        explanation='Every exists/isfile/access/stat/open call in static_file is made on the single name abspath(join(abspath(root)+sep, '
                    'stripped name)) and only under the path condition that this name starts with abspath(root)+sep; all other paths return 403/404 without opening anything.',
        level_text='Proof (all names, all roots): containment is decided by the path condition at each file-system call site of the real source.',
        level_note='"Inside" is lexical as in the statement (normalised location has normalised root + separator as prefix); os.path.abspath/join are '
                   'uninterpreted library functions assumed not to touch the file; symlinks are outside the statement.',
        trusted_base=['os.path.abspath / join / str.strip as uninterpreted pure functions'],
    ),
    'C17': dict(
        level='proof',
        contracts=['C17', 'static_file'],
        frames=[],
        technique='deductive: VCs from the real AST of get_first_range (== RFC 7233 first-range clipping as a z3 term), _file_iter_range '
                  '(loop invariant: exactly file[s:e], chunks <= maxread) and the header assembly of static_file; bounded check on real files as replay harness',
        explanation='get_first_range returns exactly the first byte-range-spec clipped to the file or None iff unsatisfiable/unparsable; '
                    '_file_iter_range yields exactly that slice in chunks <= maxread; static_file uses the same (s,e) for Content-Range, '
                    'Content-Length and the body, 416 iff no range, whole file with true length otherwise, 304 iff not modified, HEAD without body.',
        level_text='Proof for all headers, file sizes and read fragmentations, relative to int() as a partial function.',
        level_note='int() is abstract (what counts as a number is Python\'s); date parsing (parse_date) is library code and is bounded only; '
                   'a present If-Modified-Since header is assumed non-empty.',
        trusted_base=['file object contract seek/read', 'int(str) partial-function abstraction'],
    ),
    'C20': dict(
        level='other',
        contracts=[],
        frames=['codec_lemma'],
        technique='complete per-code-point enumeration of html_escape / html.escape (every code point neutralised) + bounded run-time '
                  'contract check of every framework error page (skeleton comparison, JSON validity); pyvc contracts on render pending',
        explanation='Escaping functions decided by complete enumeration; data flow into the pages BOUNDED.',
        level_text='Complete enumeration for the escaping functions; bounded contract check for the pages (never counted as proved).',
        level_note='str.replace with a 1-character needle acts per character (sampled).',
    ),
}

NOT_APPLICABLE = {}
