"""Per-property configuration: which contracts / frame checks / bounded module decide it, the level claimed."""

GLOBAL_ASSUMPTIONS = [
    'pyvc (the VC generator in /verif/pyvc: value models, slice semantics, loop cutting) and the SMT solvers are trusted',
    'Python ints are unbounded: no machine arithmetic is involved anywhere in the verified code',
    'names resolve to the definitions in the repository module (no monkey-patching, builtins not shadowed)',
]
TRUSTED_BASE = ['pyvc VC generator', 'z3 5.1', 'cvc5 1.0.3 (only for queries z3 leaves open)', 'CPython 3.12 semantics as modelled']

PROPS = {
    'C04': dict(
        level='proof',
        contracts=['C04'],
        frames=[],
        technique='deductive: loop-invariant VCs generated from the real AST of _iter_body/_body_read, discharged by z3/cvc5; '
                  'bounded run-time contract check as replay harness',
        explanation='VCs over the real source of the Content-Length reader: invariant (delivered++stream == stream0, '
                    'accounting, within Content-Length), exactness postcondition, read-argument bound, termination variant.',
        level_text='Proof: every VC generated from the current source of _iter_body / _body_read under the stated contracts is '
                   'discharged (all inputs, all fragmentations, all iteration counts); the bounded contract run is the replay harness.',
        level_note='Assumes the server read(n) contract (PEP 3333), io.BytesIO/TemporaryFile library contract, buff_size >= 1; trusts pyvc and the solvers.',
        trusted_base=['server read(n) contract (PEP 3333)', 'io.BytesIO/TemporaryFile write/getvalue (library contract)'],
    ),
}

NOT_APPLICABLE = {}
