"""Per-property configuration: which contracts / frame checks / bounded module decide it, the level claimed."""

GLOBAL_ASSUMPTIONS = [
    'pyvc (the VC generator in /verif/pyvc: value models, slice semantics, loop cutting) and the SMT solvers are trusted',
    'Python ints are unbounded: no machine arithmetic is involved anywhere in the verified code',
    'names resolve to the definitions in the repository module (no monkey-patching, builtins not shadowed)',
]
TRUSTED_BASE = ['pyvc VC generator', 'z3 5.1', 'cvc5 1.0.3 (only for queries z3 leaves open)', 'CPython 3.12 semantics as modelled']

PROPS = {
    'C04': dict(
        level='proof',
        contracts=['C04', 'body_read', 'body_access', 'reqobj', 'config', 'cachein'],
        frames=['cache_keys'],
        technique='deductive: loop-invariant VCs generated from the real AST of _iter_body/_body_read/_body/body, discharged by z3/cvc5; '
                  'bounded run-time contract check as replay harness',
        explanation='VCs over the real source of the Content-Length reader: invariant (delivered++stream == stream0, '
                    'accounting, within Content-Length), exactness postcondition, read-argument bound, termination variant.',
        level_text='Proof: every VC generated from the current source of _iter_body / _body_read under the stated contracts is '
                   'discharged (all inputs, all fragmentations, all iteration counts), as are the wiring obligations of _body / body / content_length '
                   'and of Request.copy (a copy shares the buffered body and the remembered refusal); the bounded contract run is the replay harness.',
        level_note='Assumes the server read(n) contract (PEP 3333), io.BytesIO/TemporaryFile library contract, buff_size >= 1; trusts pyvc and the solvers. '
                   'A copy taken BEFORE the first body access shares the raw stream (not in the quantifier of the statement).',
        trusted_base=['server read(n) contract (PEP 3333)', 'io.BytesIO/TemporaryFile write/getvalue (library contract)'],
    ),
    'C05': dict(
        level='proof',
        contracts=['C05', 'body_read', 'body_access', 'config', 'reqobj'],
        frames=[],
        technique='deductive: loop-invariant VCs over ghost stream state generated from the real AST of _iter_chunked / _body_read, '
                  'z3 then cvc5; bounded run-time contract check against an RFC 7230 reference decoder as replay harness',
        explanation='VCs over the real source of the chunked reader: per chunk exactly n payload bytes are consumed, yielded in '
                    'order and followed by CRLF; a size line is accepted only up to its first CRLF within the buffer; normal exit '
                    'only after a zero-size line; every raise is a BodyParsingError justified by the stream (EOF, over-long line, '
                    'unparsable size, missing CRLF), never by read fragmentation; all three loops terminate.',
        level_text='Proof of the per-chunk contract, the exit condition, the exception frame and the fragmentation-independence of '
                   'rejection for all streams, buffers and read fragmentations; the composition over chunks is carried by the ghost '
                   'accumulation in the outer invariant; agreement with an independent RFC 7230 decoder is checked bounded.',
        level_note='Assumes the server read(n) contract (PEP 3333), int(b,16) as a partial function, buff_size >= 1; trusts pyvc and the solvers. '
                   'Equality with the reference decoder (what counts as a legal size line) is bounded, not proved.',
        trusted_base=['server read(n) contract (PEP 3333)', 'int(bytes, 16) partial-function abstraction'],
    ),
    'C13': dict(
        level='proof',
        contracts=['body_read', 'C04', 'C05', 'C12', 'fieldstorage', 'body_access', 'config', 'reqobj'],
        frames=['errors_map_const'],
        technique='deductive: loop-invariant VCs from the real AST of _body_read (limit, spooling, content) on top of the proved '
                  'generator contracts of _iter_body/_iter_chunked (part size <= buffer); bounded run-time check as replay harness',
        explanation='VCs over _body_read: BodySizeError is raised iff the accumulated size exceeds max_body_size at a part boundary, '
                    'at that moment at most limit + one buffer of payload was taken; spooled to a TemporaryFile iff size > threshold, '
                    'content identical; parts are bounded by the buffer (proved on the generators).',
        level_text='Proof for the reader (_body_read and both generators): size limit, one-buffer overshoot bound, spool switch and '
                   'content equality for all inputs; the mapping to 413 and the form-text budget are checked by VCs on _raise / '
                   '_get_body_string / FieldStorage.read where contracted, otherwise bounded.',
        level_note='Assumes io.BytesIO/TemporaryFile library contract, max_body_size None or >= 0, buff_size >= 1; trusts pyvc and the solvers.',
        trusted_base=['server read(n) contract (PEP 3333)', 'io.BytesIO/TemporaryFile write/getvalue (library contract)'],
    ),
    'C14': dict(
        level='proof',
        contracts=['C14', 'C03', 'headerlist', 'copies'],
        frames=['codec_lemma', 'header_store'],
        technique='deductive: VCs from the real AST of _hval, HeaderDict.__setitem__/append/setdefault, HeaderProperty.__set__, '
                  'BaseResponse.__init__ (data-structure invariant Clean(dict)) and of BaseResponse.headerlist (comprehensions executed on a '
                  'generic element: filter, inner iterable and emitted pair compared pointwise with the specification; cookie loop with '
                  'invariant); complete per-code-point enumeration of the emission transcoding; bounded run-time contract check as replay harness',
        explanation='_hval accepts exactly None/str/int/float/bool, rejects CR/LF/NUL, returns str(value); every single-value '
                    'setter stores only _hval results (Clean(dict) preserved for all arguments); callers reach the dictionary only '
                    'through the guarded setters; headerlist emits, for every stored entry not forbidden for the status (by title()), one pair per stored '
                    'value in order with the value transcoded UTF-8->Latin-1, then at most the default Content-Type (never when a blacklist is '
                    'active), then one Set-Cookie per cookie; the transcoding is wire-safe and invertible for every code point.',
        level_text='Proof that a value with CR/LF/NUL is rejected by every single-value setter and never stored (all values, all types); '
                   'complete enumeration for the codec clause; proof that headerlist emits exactly the stored values (once per value, in order, '
                   'transcoded, forbidden names withheld) relative to the stated semantics of comprehensions and of str.title().',
        level_note='Assumes str(int)/str(float) are control-character free, codecs are concatenation homomorphisms; a list offered to '
                   'setdefault is stored unguarded (outside the statement: single-value setters). The order in which Python comprehensions '
                   'yield their elements is assumed; SimpleCookie.OutputString is library code.',
        trusted_base=['Clean(dict) holds on entry of every setter (re-established by every contracted writer)'],
    ),
    'C15': dict(
        level='proof',
        contracts=['C15', 'C03', 'reqobj', 'copies'],
        frames=[],
        technique='deductive: VCs from the real AST of _lscmp, cookie_is_encoded, cookie_decode (pickle.loads dominated by the signature '
                  'equality), cookie_encode (+ inverse lemma from library axioms), get_cookie; bounded run-time check of the SimpleCookie '
                  'transport and of exhaustive single-position tampering (instrumented unpickler) as replay harness',
        explanation='pickle.loads is reached only on paths where data = "!" sig "?" msg and sig == b64(HMAC_md5(key, msg)), with argument '
                    'b64decode(msg); every other path returns None without deserialising; _lscmp(a,b) <=> a == b; decode(encode(d,k),k) == d '
                    'from the library axioms; get_cookie returns a signed payload only through the verified pair whose name equals the key.',
        level_text='Proof of verify-before-unpickle and of the signed round trip for all inputs, relative to the cryptographic assumption '
                   'A-HMAC (listed), including the response side (set_cookie stores exactly the encoding of the (name, value) pair under that name; '
                   'HTTPResponse.apply keeps the cookies unless the raised response has its own); the unsigned transport through '
                   'http.cookies.SimpleCookie is library code and is decided bounded only.',
        level_note='A-HMAC (no forgery without the key) is an assumption, not provable. hmac/base64/pickle are uninterpreted with the stated axioms. '
                   'Unsigned round trip through SimpleCookie: bounded; two known findings (empty value, code points above U+00FF).',
        trusted_base=['A-HMAC', 'pickle/base64 inverse axioms', 'sum/zip/generator-expression semantics as stated'],
    ),
    'C16': dict(
        level='proof',
        contracts=['static_file'],
        frames=[],
        technique='deductive: path-sensitive VCs from the real AST of static_file: every file-system access is dominated by the prefix '
                  'test of the normalised name against the normalised root + separator; bounded check on a real directory tree as replay harness',
        explanation='Every exists/isfile/access/stat/open call in static_file is made on the single name abspath(join(abspath(root)+sep, '
                    'stripped name)) and only under the path condition that this name starts with abspath(root)+sep; all other paths return 403/404 without opening anything.',
        level_text='Proof (all names, all roots): containment is decided by the path condition at each file-system call site of the real source.',
        level_note='"Inside" is lexical as in the statement (normalised location has normalised root + separator as prefix); os.path.abspath/join are '
                   'uninterpreted library functions assumed not to touch the file; symlinks are outside the statement.',
        trusted_base=['os.path.abspath / join / str.strip as uninterpreted pure functions'],
    ),
    'C17': dict(
        level='proof',
        contracts=['C17', 'static_file'],
        frames=[],
        technique='deductive: VCs from the real AST of get_first_range (== RFC 7233 first-range clipping as a z3 term), _file_iter_range '
                  '(loop invariant: exactly file[s:e], chunks <= maxread) and the header assembly of static_file; bounded check on real files as replay harness',
        explanation='get_first_range returns exactly the first byte-range-spec clipped to the file or None iff unsatisfiable/unparsable; '
                    '_file_iter_range yields exactly that slice in chunks <= maxread; static_file uses the same (s,e) for Content-Range, '
                    'Content-Length and the body, 416 iff no range, whole file with true length otherwise, 304 iff not modified, HEAD without body.',
        level_text='Proof for all headers, file sizes and read fragmentations, relative to int() as a partial function; parse_date is under '
                   'contract relative to the library parser (the zone offset of the date is accounted for).',
        level_note='int() is abstract (what counts as a number is Python\'s); the text -> fields step of date parsing (email.utils.parsedate_tz) is library code (bounded); '
                   'a present If-Modified-Since header is assumed non-empty.',
        trusted_base=['file object contract seek/read', 'int(str) partial-function abstraction'],
    ),
    'C20': dict(
        level='proof',
        contracts=['C20', 'wsgi', 'config'],
        frames=['codec_lemma', 'error_sites', 'confinement'],
        technique='deductive: dataflow VCs from the real AST of error_render.render and Ombott.default_error_handler (the URL reaches '
                  'the template context only as repr(html.escape(url)); debug-only fields are constants otherwise); complete per-code-point '
                  'enumeration of html.escape / html_escape; per-site literal-body obligations over every framework HTTPError(...); bounded '
                  'page-skeleton check as replay harness',
        explanation='render formats every template line with url = repr(escape(url)), constants for exception/traceback unless debug, and '
                    'the error object; default_error_handler passes request.url and the configured debug flag, or returns json.dumps of a '
                    'dict with the JSON content type; the template uses only the five known fields; every framework HTTPError has a literal '
                    'status/body; the last-resort page interpolates only html_escape results; both escaping functions neutralise every code point.',
        level_text='Proof of the data flow for all URLs and error objects plus complete enumeration for the escaping functions; the '
                   'composition relies on stated Python semantics of str.format and repr. End-to-end pages are additionally checked bounded.',
        level_note='str.format does not re-scan substituted values; repr of a quote-free string adds only quotes and backslash escapes; '
                   'str.replace acts per character (sampled). abort(code, text) is application data and is outside the statement.',
        trusted_base=['str.format / repr semantics', 'site checks resolve names by spelling'],
    ),
    'C02': dict(
        level='proof',
        contracts=['C02', 'C20', 'glue'],
        frames=[],
        technique='deductive: VCs from the real AST of Ombott.to_route, PropsMixin.method, Route.__getitem__, RadiRouter.resolve and '
                  'Ombott.handler (modular on the lookup contract of RadiDict.get) and of the Route method-table mutators; bounded exhaustive method-table check as replay harness',
        explanation='candidates are [verb, GET if HEAD, ANY] in that order; the first registered candidate wins, RouteMethodError iff none; '
                    'resolve answers 404 iff the lookup found no route, the endpoint iff a candidate is registered, else 405 whose third '
                    'field is ",".join(sorted(route.methods)); handler raises HTTPError(405, Allow=that string) / HTTPError(404); the '
                    'request method is upper-cased.',
        level_text='Proof of the dispatch order, the 404/405 split and the Allow value for all verbs and method tables, relative to the '
                   'lookup contract of the radix tree (which is C01 and bounded). The method-table mutators of Route (set_method, _set_methods, add_method, '
                   '_raise_if_registered, remove_method) are under contract too (exact effect on the table, refusal before any write), and so are the '
                   'registration-side upper-casing in RadiRouter.add, RadiRouter._add and the app-level wrappers (Ombott.add_route, Ombott.route '
                   'and its decorator: every argument reaches the router in its place; defaults GET / unnamed / no overwrite).',
        level_note='Assumes RadiDict.get returns a falsy route iff no rule matches (C01, bounded); sorted/join uninterpreted; '
                   'Route.__getitem__ checked for candidate lists of length 1..3 (complete for the callers).',
        trusted_base=['lookup contract of RadiDict.get (C01, bounded)'],
    ),
    'C18': dict(
        level='proof',
        contracts=['C18', 'C12', 'collect', 'reqobj', 'cachein', 'getters'],
        frames=['cache_keys'],
        technique='deductive: loop-invariant VCs (three nested loops, cut lemmas) from the real AST of parse_qsl over z3 strings, '
                  'z3 then cvc5; bounded check of list promotion and of the encode->parse round trip as replay harness',
        explanation='parse_qsl never raises and terminates (variant L - i); every outer iteration starts at a segment start and consumes '
                    'exactly one &-separated segment; the key is the separator-free run up to the first = or &, the value the &-free run '
                    'after the =; empty keys emit nothing; both are decoded with + -> space and unquote.',
        level_text='Proof of totality, termination and exact segment/key/value scanning for every input string, and of the list promotion of '
                   'repeated keys (nested add: first value as it is, one shared list [first, second, ...] in order afterwards). The library '
                   'encoder/decoder inverse is decided by the bounded check.',
        level_note='unquote / replace are uninterpreted total functions; only the setitem mode (the one ombott uses) is under contract; '
                   'the nested add is a callee with its own contract (contracts/collect.py: QslAdd).',
        trusted_base=['urllib.parse.unquote total', 'uniqueness of the decomposition of a string into &-segments (meta-argument)'],
    ),
    'C03': dict(
        level='other', contracts=['C03', 'wsgi', 'cast', 'static_file', 'C17', 'glue'], frames=['exc_classes'],
        technique='bounded run-time contract check: independent PEP 3333 validator as postcondition of Ombott.__call__ over an enumerated '
                  'space of handler programs x methods x statuses x hook configurations',
        explanation='BOUNDED: exhaustive product of handler programs (coverage.bounded). PROVED per function: wsgi (one start_response after '
                    '_cast, body suppression + single close for HEAD/1xx/204/304, last-resort 500, interrupts propagate), _handle (request/response '
                    're-initialised first on every path, before-hooks -> routing -> handler, after-hooks exactly once, HTTPResponse returned, other '
                    'exceptions -> 500 + traceback to wsgi.errors), _cast (every return shape, exact Content-Length, close attached once, error '
                    'recasting, leading empty items skipped, termination), emit (snapshot), add_hook (order), apply (copy by value), the status '
                    'setter (100..999, "<code> <reason>"), _closeiter.close.',
        level_text='Every function between the server call and the handler is under contract and all their obligations are discharged for all '
                   'handler results (by kind) and all callee outcomes; the composition of these contracts into the PEP 3333 statement is an '
                   'argument on paper, so the level claimed stays `other`: the end-to-end statement is decided by the bounded validator run.',
        level_note='The handler-program space is finite and stated in coverage.bounded.bound.',
    ),
    'C08': dict(
        level='other', contracts=['C10', 'C20', 'C02', 'C03', 'wsgi'], frames=['confinement'],
        technique='bounded run-time contract check with forced thread interleavings (token hand-over at every executed statement of the '
                  'package via sys.settrace; all schedules up to a preemption bound) against the served-alone response; proved: the ts_props '
                  'accessors read and write only the thread-local store of their own instance; the process-wide template cache is published atomically',
        explanation='BOUNDED forced interleavings of 2-3 request threads; proved ownership of the thread-local accessors and atomic fill of '
                    'the only process-wide lazily initialised state (error page template cache).',
        level_text='Bounded exploration of schedules on the real code (never counted as proved) plus proved accessor ownership. A full '
                   'thread-confinement frame check over every write site of the request path (frames/confinement.py: 72 functions, each write classified '
                   'TL / REQ / FRESH / ARG or allow-listed with a justification) is discharged, but it is a name-based, flow-insensitive analysis: it '
                   'supports the argument and catches shared-state regressions; it is not counted as a proof of the statement.',
        level_note='Preemption bound and request kinds are stated in coverage.bounded.bound; threading.local semantics and CPython atomicity of single container operations assumed.',
    ),
    'C09': dict(
        level='other', contracts=['C14', 'C03', 'C12', 'wsgi', 'C20'], frames=['confinement'],
        technique='bounded run-time contract check of request histories against a fresh application + weak-reference retention count; '
                  'VC on BaseResponse.__init__ (reset completeness)',
        explanation='BOUNDED histories (equality with a fresh application, self-consistency of each response, no identifier of an earlier request '
                    'in a later response, retention count). PROVED per function: BaseResponse.__init__ resets every listed slot; _handle re-initialises '
                    'request and response before anything else on every path; apply copies by value and aliases nothing; _raise re-raises the shared '
                    'error object with a clean traceback. Frame analysis: no request-path write reaches a long-lived object.',
        level_text='Bounded contract check of histories (never counted as proved) plus proved reset / no-aliasing / clean-traceback obligations and a '
                   'discharged (name-based, flow-insensitive) confinement analysis of every request-path write site; the statement itself is a '
                   'whole-history property and stays at level `other`.',
        level_note='History length and request kinds are stated in coverage.bounded.bound.',
    ),
    'C10': dict(
        level='proof', contracts=['C10', 'C03', 'C02', 'wsgi', 'reqobj', 'copies', 'cachein'], frames=['confinement', 'cache_keys'],
        technique='deductive: heap-model VCs from the real AST of the ts_props accessors (fget/fset/fdel) and of the wrapped __init__ '
                  '(ownership: an accessor touches only the store of the instance it is called on; init writes nothing but its own instance '
                  'and its own store; no nonlocal/global write), and of HTTPResponse.apply (no aliasing of long-lived objects); bounded '
                  'check of nested / alternating / interleaved applications as replay harness',
        explanation='fget(s) == H[H[s,store],k] with H unchanged; fset(s,v) writes exactly that cell, so another instance with another store '
                    'is unaffected (relational obligation); init_wrapper takes or creates the store of ITS instance, resets exactly the listed '
                    'properties there and writes nothing else before calling the class __init__; apply copies headers by value.',
        level_text='Proof of instance ownership of the thread-local accessors and of the wrapped initialiser for all instances, stores and '
                   'property names, and of the construction / copy glue (Ombott.__init__: own configuration, router, request, response; '
                   'Request.copy; HeaderDict.copy and BaseResponse.copy: nothing mutable shared; _handle binds the environ to its own '
                   'application); site obligations: no class-level mutable is mutated through an instance, no mutable default argument is '
                   'mutated, no process-lifetime memoisation, no module-level mutable escapes into a callee. That no other state is shared is '
                   'decided by the bounded arrangements.',
        level_note='Heap model H[object, name]; threading.local() allocates a fresh object; store_name is not a listed property. '
                   'Sharing through objects outside ts_props (class attributes, module globals): bounded.',
        trusted_base=['heap model of getattr/setattr/delattr', 'threading.local semantics'],
    ),
    'C11': dict(
        level='other', contracts=['radix', 'C02', 'C01', 'glue'], frames=[],
        technique='bounded model-based contract check: every edit history up to a depth bound (state-merged) compared with a freshly '
                  'built router on all probe paths, name/rule lookups and fired hooks',
        explanation='BOUNDED edit histories over seven rule universes (incl. literal children directly after a filtered wildcard); see coverage.bounded.',
        level_text='Bounded contract check (never counted as proved) for the statement. Proved: the four helpers that rewrite tree nodes in '
                   'place (_make_node, _split, _try_merge, _mount) keep the abstract content of the tree (keys concatenate to the old key, '
                   'every slot and child carried over, merge only without data/hooks and never across a wildcard, index string matches the '
                   'children, one wildcard child kept last); make_filter keeps one handler object per filter spec (the identity the router '
                   'compares); a refused method registration changes nothing (method-table mutators); the index dictionaries of RadiRouter change '
                   'together with the tree (RadiRouter._add, remove, _remove_named_routers, add_hook, remove_hook, hook_installer, get_hook, '
                   'to_pattern: each asks the tree exactly once with the pattern parse_rule gives and updates routes / named_routes / hooks '
                   'under that same pattern, or touches nothing), and the application-level wrappers pass every argument through. The '
                   'algorithms that walk the tree (RadiDict.get, _match, _set, remove) are not under contract.',
        level_note='Depth bound and universes are stated in coverage.bounded.bound.',
    ),
    'C01': dict(
        level='other', contracts=['C02', 'C01', 'radix'], frames=['router_consts'],
        technique='bounded run-time contract check: RadiRouter.resolve / Ombott.__call__ against an independent rule-by-rule spec matcher '
                  'over enumerated rule lists and paths; proved side obligations on RadiRouter.resolve (result assembly)',
        explanation='BOUNDED: ordered rule lists (singletons of a 4641-rule universe, pairs, prefix-sharing families, random lists) x all short '
                    'paths over an 8-letter alphabet incl. CR, lookups interleaved with registration, a renamed-wildcard hook, one removal; see coverage.bounded. '
                    'Proved: resolve assembles its result from the lookup result as specified (and consults nothing else); make_params_dict returns a '
                    'fresh dict of exactly the named pairs; the filter handler closures return the converted capture or refuse.',
        level_text='Bounded contract check of the real router (never counted as proved): the walk of the radix tree (RadiDict.get/_match/_set/'
                   'remove) with backtracking and compiled regular expressions is not under contract. Proved parts: result assembly of resolve, '
                   'make_params_dict, the filter handler closures, make_filter (one handler object per filter spec), and the node surgery '
                   'helpers (_make_node, _split, _try_merge, _mount); frame: generated wildcard names cannot collide with user names.',
        level_note='Bounds are stated in coverage.bounded.bound. Two known findings (names of a second rule on a shared pattern; int filter digit limit).',
    ),
    'C06': dict(
        level='other', contracts=['body_read', 'C06', 'C04'], frames=['headers_regex'],
        technique='bounded run-time contract check of compositionality: MultipartMarkup.parse fed with every division of small-scope byte strings '
                  'and of generated well-formed bodies (and their prefixes) must equal the one-piece parse; VC: _body_read feeds every part in order',
        explanation='BOUNDED small-scope exhaustive splits; proved: _body_read hands each part to markup.parse in order; the three post-delimiter '
                    'eaters are pinned down completely (result, exception, state) and the split-after-one-byte lemma holds over their specifications.',
        level_text='Bounded contract check (never counted as proved) for the whole statement; proved: functional contracts + split lemma of the '
                   'post-delimiter eaters, match_tail (soundness, completeness, minimality of the reported partial-delimiter position) together with '
                   'the index table MatchTail.__init__ builds for it, the dispatcher HeadersEaeter.eat, the section emission with absolute '
                   'offsets of iter_markup (relative to the eaters), and the feeding obligation of _body_read. The two searching eaters '
                   '_eat_start_boundary (relative to _eat_data) and _eat_headers (relative to a specification of its regular expression that '
                   'is validated against the real pattern by enumeration on a bounded scope) are under contract as well. The block-wise '
                   'delimiter search _eat_data is proved in stream terms, soundness AND completeness: with prev = the section bytes of '
                   'earlier chunks, a reported position is the FIRST occurrence of the delimiter in prev ++ chunk, None means there is none, '
                   'and the expectation carried to the next chunk is exactly the (unique) proper head of the delimiter the stream ends with - '
                   'i.e. the result does not depend on where the chunk boundaries fall. What is NOT mechanised is the composition of these '
                   'per-function contracts (and the stream-level reading of _eat_headers for well-formed header blocks) into the statement, '
                   'so the level stays `other` and the statement itself is decided by the bounded check.',
        level_note='Bounds are stated in coverage.bounded.bound.',
    ),
    'C07': dict(
        level='other', contracts=['C07', 'collect', 'C06', 'config', 'getters'], frames=['class_attrs'],
        technique='bounded run-time contract check: encode (independent RFC 7578 encoder) -> POST through Ombott.__call__ -> compare forms/files',
        explanation='BOUNDED field lists, names, contents, boundaries, thresholds and framings; proved: BytesIOProxy read/seek/tell stay inside the '
                    'window [_st,_end) of the buffered body (no byte of another part) and return exactly the window slice; _collect_multipart puts every '
                    'item, in submission order, into post and into exactly one of forms / files (upload wrapper built from this very item), a '
                    'repeated name as one flat list per view (loop invariant: view == recursive specification, for the three views).',
        level_text='Bounded contract check (never counted as proved) for the round trip; proved: window arithmetic of BytesIOProxy, the '
                   'collection into forms / files / POST with list promotion (_collect_multipart). The pairing of sections into fields '
                   '(FieldStorage.iter_items/read), header-parameter parsing (parse_header) and the section markup are bounded only for this '
                   'property, so the level stays `other`.',
        level_note='Bounds are stated in coverage.bounded.bound.',
    ),
    'C12': dict(
        level='other', contracts=['C05', 'body_read', 'C18', 'C12', 'fieldstorage', 'body_access', 'C03', 'collect', 'config', 'C06', 'getters', 'reqobj'], frames=['errors_map_const', 'exc_classes'],
        technique='bounded run-time contract check of grammar-mutated bodies through Ombott.__call__ (status class, delivered fields complete); '
                  'proved exception frames of _iter_chunked, _body_read, _body, _raise, _get_body_string, json, POST, FieldStorage.read; termination of the readers and of parse_qsl',
        explanation='BOUNDED grammar mutations, truncations, byte mutations, small-scope bodies; proved: _iter_chunked raises only BodyParsingError, '
                    '_body_read only BodySizeError/BodyParsingError, all loops of the chunked reader and of parse_qsl terminate, parse_qsl never raises.',
        level_text='Bounded contract check (never counted as proved) plus proved exception frames: every failure raised on the way from the stream '
                   'to request.POST / forms / files / json leaves through _raise with a constant 4xx error object (readers, _body incl. the remembered '
                   'refusal, _get_body_string, json, POST, FieldStorage.read), and the readers and parse_qsl terminate.',
        level_note='Bounds are stated in coverage.bounded.bound.',
    ),
    'C19': dict(
        level='proof', contracts=['C19'], frames=[],
        technique='deductive: loop-invariant VC from the real AST of Route.url (result == pattern with the m-th marker replaced by the formatted '
                  'm-th parameter; slice bookkeeping); bounded re-match through the real router as replay harness',
        explanation='Route.url returns exactly the specified string: literal characters verbatim and in order, every marker replaced by the '
                    'formatted value of the right (named or positional) parameter.',
        level_text='Proof of the substitution clause (literal parts verbatim and in order, right parameter per marker) for all patterns. '
                   'That the built path is matched again with equal values depends on the real filters and is decided bounded only; '
                   'three known findings there (path filter before a literal, float repr with exponent, empty filtered capture).',
        level_note='Filter callables are opaque; Route representation invariant (one params entry per marker) assumed; re-match clause bounded.',
        trusted_base=['Route representation invariant established by parse_rule'],
    ),
}

NOT_APPLICABLE = {}

# ---- additions of the last rounds (glue between the parsers / the router and the user; see DESIGN.md sections 0 and 9)
_MORE = {
    'C03': ' The application-level hook wrappers (Ombott.on and its decorator, remove_hook) and the file helpers (static_file, '
           '_file_iter_range: the announced length is the delivered length) are under contract as well.',
    'C04': ' The cache_in closures that keep the body in the environ (computed once, stored under the key, read-only) are under contract; '
           'frame cache_keys: the key of _body is the one a replaced wsgi.input invalidates.',
    'C10': ' No class-level mutable is handed out by a method (frame rule escape.returned); the cache_in closures keep every derived request '
           'attribute in the request\'s own environ, and no two attributes share a key (frame cache_keys).',
    'C12': ' Request.copy keeps the configuration (limits, error map); forms / files hand out the environ entry POST filled.',
    'C13': ' Request.copy keeps the configuration: a copy reads the body under the same limits.',
    'C14': ' Frame header_store: no code writes into the raw header store except the validating dictionary and the listed sites.',
    'C18': ' BodyMixin.query parses exactly QUERY_STRING, once, into the dict it returns; the cache under which it is kept is the one a changed '
           'QUERY_STRING drops (cache_in closures, frame cache_keys, _on_env_changed).',
}
for _p, _t in _MORE.items():
    PROPS[_p]['level_text'] = PROPS[_p].get('level_text', '') + _t
PROPS['C20']['level_text'] = PROPS['C20'].get('level_text', '') + (
    ' The confinement frame runs here too: render and the error handler keep no module- or class-level state (a memo of escaped URLs '
    'that falls back to the raw text when full would be such state).')
