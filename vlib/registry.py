"""Per-property configuration: which contracts / frame checks / bounded module decide it, the level claimed."""

GLOBAL_ASSUMPTIONS = [
    'pyvc (the VC generator in /verif/pyvc: value models, slice semantics, loop cutting) and the SMT solvers are trusted',
    'Python ints are unbounded: no machine arithmetic is involved anywhere in the verified code',
    'names resolve to the definitions in the repository module (no monkey-patching, builtins not shadowed)',
]
TRUSTED_BASE = ['pyvc VC generator', 'z3 5.1', 'cvc5 1.0.3 (only for queries z3 leaves open)', 'CPython 3.12 semantics as modelled']

PROPS = {
    'C04': dict(
        level='proof',
        contracts=['C04', 'body_read'],
        frames=[],
        technique='deductive: loop-invariant VCs generated from the real AST of _iter_body/_body_read, discharged by z3/cvc5; '
                  'bounded run-time contract check as replay harness',
        explanation='VCs over the real source of the Content-Length reader: invariant (delivered++stream == stream0, '
                    'accounting, within Content-Length), exactness postcondition, read-argument bound, termination variant.',
        level_text='Proof: every VC generated from the current source of _iter_body / _body_read under the stated contracts is '
                   'discharged (all inputs, all fragmentations, all iteration counts); the bounded contract run is the replay harness.',
        level_note='Assumes the server read(n) contract (PEP 3333), io.BytesIO/TemporaryFile library contract, buff_size >= 1; trusts pyvc and the solvers.',
        trusted_base=['server read(n) contract (PEP 3333)', 'io.BytesIO/TemporaryFile write/getvalue (library contract)'],
    ),
    'C05': dict(
        level='proof',
        contracts=['C05', 'body_read'],
        frames=[],
        technique='deductive: loop-invariant VCs over ghost stream state generated from the real AST of _iter_chunked / _body_read, '
                  'z3 then cvc5; bounded run-time contract check against an RFC 7230 reference decoder as replay harness',
        explanation='VCs over the real source of the chunked reader: per chunk exactly n payload bytes are consumed, yielded in '
                    'order and followed by CRLF; a size line is accepted only up to its first CRLF within the buffer; normal exit '
                    'only after a zero-size line; every raise is a BodyParsingError justified by the stream (EOF, over-long line, '
                    'unparsable size, missing CRLF), never by read fragmentation; all three loops terminate.',
        level_text='Proof of the per-chunk contract, the exit condition, the exception frame and the fragmentation-independence of '
                   'rejection for all streams, buffers and read fragmentations; the composition over chunks is carried by the ghost '
                   'accumulation in the outer invariant; agreement with an independent RFC 7230 decoder is checked bounded.',
        level_note='Assumes the server read(n) contract (PEP 3333), int(b,16) as a partial function, buff_size >= 1; trusts pyvc and the solvers. '
                   'Equality with the reference decoder (what counts as a legal size line) is bounded, not proved.',
        trusted_base=['server read(n) contract (PEP 3333)', 'int(bytes, 16) partial-function abstraction'],
    ),
    'C13': dict(
        level='proof',
        contracts=['body_read', 'C04', 'C05'],
        frames=[],
        technique='deductive: loop-invariant VCs from the real AST of _body_read (limit, spooling, content) on top of the proved '
                  'generator contracts of _iter_body/_iter_chunked (part size <= buffer); bounded run-time check as replay harness',
        explanation='VCs over _body_read: BodySizeError is raised iff the accumulated size exceeds max_body_size at a part boundary, '
                    'at that moment at most limit + one buffer of payload was taken; spooled to a TemporaryFile iff size > threshold, '
                    'content identical; parts are bounded by the buffer (proved on the generators).',
        level_text='Proof for the reader (_body_read and both generators): size limit, one-buffer overshoot bound, spool switch and '
                   'content equality for all inputs; the mapping to 413 and the form-text budget are checked by VCs on _raise / '
                   '_get_body_string / FieldStorage.read where contracted, otherwise bounded.',
        level_note='Assumes io.BytesIO/TemporaryFile library contract, max_body_size None or >= 0, buff_size >= 1; trusts pyvc and the solvers.',
        trusted_base=['server read(n) contract (PEP 3333)', 'io.BytesIO/TemporaryFile write/getvalue (library contract)'],
    ),
}

NOT_APPLICABLE = {}
