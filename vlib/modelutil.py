"""turning z3 model values into concrete python values for native replays"""
import z3


def ev(model, t):
    return model.eval(t, model_completion=True)


def as_int(model, t, default=None):
    try:
        return ev(model, t).as_long()
    except Exception:
        return default


def as_bool(model, t, default=None):
    try:
        return z3.is_true(ev(model, t))
    except Exception:
        return default


def as_bytes(model, t, default=None):
    """value of a Seq(BitVec 8) term"""
    try:
        v = z3.simplify(ev(model, t))
    except Exception:
        return default
    out = bytearray()

    def walk(e):
        k = e.decl().kind()
        if k == z3.Z3_OP_SEQ_EMPTY:
            return True
        if k == z3.Z3_OP_SEQ_UNIT:
            c = e.arg(0)
            if z3.is_bv_value(c):
                out.append(c.as_long())
                return True
            return False
        if k == z3.Z3_OP_SEQ_CONCAT:
            return all(walk(c) for c in e.children())
        return False
    return bytes(out) if walk(v) else default


def as_str(model, t, default=None):
    try:
        v = z3.simplify(ev(model, t))
        if z3.is_string_value(v):
            return v.as_string()
    except Exception:
        pass
    return default
