"""Independent reference semantics of ombott route rules (oracle for C01 / C02 / C11 / C19).

Written from the property statements in /verif/properties.jsonl and the corner decisions fixed in
/verif/DESIGN.md (section C01); nothing here is copied from, or imports, ombott.

A *rule* is a list of segments (JSON-able lists, so that cases can be stored as replay files):

    ['L', text]                     literal text (never empty; no two literals in a row)
    ['W', name, filter, arg]        wildcard; name: str | None (anonymous);
                                    filter in {None, 'int', 'float', 're', 'path'}; arg: regex text for 're'

The first segment is a literal that starts with '/'.  The oracle never parses rule *text*: `render`
turns a segment list into rule text in each of the three syntax flavours of ombott

    colon : /a/:x            (only unfiltered wildcards that are followed by '/' or by the end of the rule;
                              the anonymous form ':' only at the very end)
    angle : /a/<x>  /a/<x:int>  /a/<x:re:[ab]+>  /a/<:int>
    brace : /a/{x}  /a/{x.int()}  /a/{x.re([ab]+)}  /a/{int()}

and falls back to the angle form for a wildcard the colon flavour cannot express.

Matching semantics (one left-to-right scan, no backtracking inside a rule):

  * the request path is compared without leading/trailing '/'  (p = path.strip('/'));
  * a literal must equal the next characters of p;
  * a wildcard is attempted only while input remains;
      unfiltered : takes the text up to the next '/' (possibly empty);
      int        : -?DIGITS            -> int
      float      : -?DIGITS(.DIGITS)?  -> float
      re(arg)    : what the regular expression `arg` matches once at the cursor (may be empty)
      path       : the longest non-empty text such that the literal following the wildcard in the rule
                   comes next (to the end of p if the wildcard is the last segment);
  * the rule matches iff rule and input are exhausted together.

Selection among several matching rules: rule A beats rule B if, at the first position where their
patterns differ, A has literal text and B has a wildcard.  Rules with identical patterns are one
*route* (their method tables are united; each handler keeps the wildcard names of its own rule).
"""
import re

FLAVOURS = ('colon', 'angle', 'brace')
FILTERS = (None, 'int', 'float', 're', 'path')
_LIT_FORBIDDEN = set(':<>{}()\r\n*')
_DIGITS = '0123456789'


def Lit(text):
    return ['L', text]


def Wild(name=None, filter=None, arg=None):
    return ['W', name, filter, arg]


def is_lit(seg):
    return seg[0] == 'L'


# ----------------------------------------------------------------------------- validity / rendering
def valid_rule(rule):
    """Rules the generator may emit (every one of them is renderable in all three flavours)."""
    if not rule or not is_lit(rule[0]) or not rule[0][1].startswith('/'):
        return False
    names = set()
    for k, seg in enumerate(rule):
        nxt = rule[k + 1] if k + 1 < len(rule) else None
        if is_lit(seg):
            text = seg[1]
            if not text or set(text) & _LIT_FORBIDDEN:
                return False
            if nxt is not None and is_lit(nxt):
                return False
        else:
            _, name, filt, arg = seg
            if filt not in FILTERS:
                return False
            if name is not None:
                if not re.fullmatch(r'[a-zA-Z_][a-zA-Z0-9_]*', name) or name in names or name.startswith('anon'):
                    return False
                names.add(name)
            if filt == 're':
                if not arg or set(arg) & set('<>{}') or arg.count('(') != arg.count(')') or '\\' in arg:
                    return False
                try:
                    re.compile(arg)
                except re.error:
                    return False
            elif arg is not None:
                return False
            if filt == 'path' and nxt is not None and not is_lit(nxt):
                return False          # what 'path' stops at is only defined before a literal / the end
            if filt is None and name is None and nxt is not None:
                return False          # an anonymous unfiltered wildcard can only be written as a final ':'
    return True


def _colon_ok(rule, k):
    seg = rule[k]
    if seg[2] is not None:
        return False
    nxt = rule[k + 1] if k + 1 < len(rule) else None
    if nxt is None:
        return True
    if seg[1] is None:
        return False
    return is_lit(nxt) and nxt[1].startswith('/')


def render(rule, flavour):
    """Rule text of `rule` in the given syntax flavour."""
    assert flavour in FLAVOURS and valid_rule(rule), (rule, flavour)
    out = []
    for k, seg in enumerate(rule):
        if is_lit(seg):
            out.append(seg[1])
            continue
        _, name, filt, arg = seg
        fl = flavour
        if fl == 'colon' and not _colon_ok(rule, k):
            fl = 'angle'
        if filt is None and name is None:
            fl = 'colon'              # the only spelling of an anonymous plain wildcard (final ':')
        if fl == 'colon':
            out.append(':' + (name or ''))
        elif fl == 'angle':
            if filt is None:
                out.append('<%s>' % name)
            elif filt == 're':
                out.append('<%s:re:%s>' % (name or '', arg))
            else:
                out.append('<%s:%s>' % (name or '', filt))
        else:
            if filt is None:
                out.append('{%s}' % name)
            else:
                call = '%s(%s)' % (filt, arg if filt == 're' else '')
                out.append('{%s}' % (call if name is None else name + '.' + call))
    return ''.join(out)


def wild_names(rule):
    """Names of the wildcards in order (None for anonymous ones)."""
    return [seg[1] for seg in rule if not is_lit(seg)]


def literals(rule):
    return [seg[1] for seg in rule if is_lit(seg)]


# ----------------------------------------------------------------------------- patterns
def tokens(rule):
    """The pattern as a flat token tuple: one str per literal character (the leading '/' of the rule is
    not part of it), one ('W', filter, what-it-depends-on) per wildcard."""
    toks = []
    for k, seg in enumerate(rule):
        if is_lit(seg):
            toks.extend(seg[1])
        else:
            _, _name, filt, arg = seg
            dep = arg
            if filt == 'path':
                dep = rule[k + 1][1] if k + 1 < len(rule) else ''
            toks.append(('W', filt, dep))
    assert toks and toks[0] == '/'
    return tuple(toks[1:])


def shape(rule):
    """The pattern with filters forgotten (literal characters and wildcard positions only)."""
    return tuple(t if isinstance(t, str) else 'W' for t in tokens(rule))


def same_route(rule_a, rule_b):
    return tokens(rule_a) == tokens(rule_b)


def filter_conflict(rule_a, rule_b):
    """True iff the two rules put wildcards with *different* filters at the same pattern position
    (same literal/wildcard prefix before it).  The statement does not say what a router does with such
    a pair (ombott refuses the second registration)."""
    ta, tb = tokens(rule_a), tokens(rule_b)
    for x, y in zip(ta, tb):
        if x == y:
            continue
        return not isinstance(x, str) and not isinstance(y, str)
    return False


def extends(rule, prefix_rule):
    """`rule` extends `prefix_rule`: the pattern of prefix_rule is an initial part of rule's pattern."""
    tr, tp = shape(rule), shape(prefix_rule)
    return len(tp) <= len(tr) and tr[:len(tp)] == tp


# ----------------------------------------------------------------------------- matching one rule
def _scan_int(s):
    j = 1 if s[:1] == '-' else 0
    k = j
    while k < len(s) and s[k] in _DIGITS:
        k += 1
    return k if k > j else 0


def _scan_float(s):
    k = _scan_int(s)
    if not k:
        return 0
    if s[k:k + 1] == '.':
        m = k + 1
        while m < len(s) and s[m] in _DIGITS:
            m += 1
        if m > k + 1:
            return m
    return k


def _to_int(text):
    """int(text) for -?DIGITS of any length (the interpreter refuses very long numerals in one go)."""
    if len(text) <= 4000:
        return int(text)
    neg = text[0] == '-'
    digits = text[1:] if neg else text
    v = 0
    for k in range(0, len(digits), 4000):
        chunk = digits[k:k + 4000]
        v = v * 10 ** len(chunk) + int(chunk)
    return -v if neg else v


def _take(seg, nxt_lit, rest):
    """(captured text, converted value) of wildcard `seg` at the start of non-empty `rest`, or None."""
    filt, arg = seg[2], seg[3]
    if filt is None:
        cut = rest.find('/')
        text = rest if cut < 0 else rest[:cut]
        return text, text
    if filt == 'int':
        n = _scan_int(rest)
        return (rest[:n], _to_int(rest[:n])) if n else None
    if filt == 'float':
        n = _scan_float(rest)
        return (rest[:n], float(rest[:n])) if n else None
    if filt == 're':
        m = re.compile(arg).match(rest)
        return (m.group(), m.group()) if m else None
    if filt == 'path':
        if '\n' in rest:
            return None               # outside the generated alphabet; keep the oracle silent there
        if not nxt_lit:
            return rest, rest
        cut = rest.rfind(nxt_lit)
        if cut <= 0:                  # the literal must follow, and the capture itself is non-empty
            return None
        return rest[:cut], rest[:cut]
    raise AssertionError(filt)


def norm(path):
    return path.strip('/')


def match(rule, path):
    """None, or {'values': [converted value per wildcard], 'texts': [...], 'ends': [input position after
    each pattern token], 'params': {name: value for named wildcards}}."""
    p = norm(path)
    i = 0
    values, texts, ends = [], [], []
    first = True
    for k, seg in enumerate(rule):
        if is_lit(seg):
            text = seg[1][1:] if first else seg[1]
            first = False
            if p[i:i + len(text)] != text:
                return None
            for _ in text:
                i += 1
                ends.append(i)
            continue
        if i >= len(p):
            return None               # a wildcard needs remaining input
        nxt = rule[k + 1][1] if k + 1 < len(rule) else ''
        got = _take(seg, nxt, p[i:])
        if got is None:
            return None
        text, value = got
        i += len(text)
        ends.append(i)
        texts.append(text)
        values.append(value)
    if i != len(p):
        return None
    params = {n: v for n, v in zip(wild_names(rule), values) if n is not None}
    return {'values': values, 'texts': texts, 'ends': ends, 'params': params}


def wildcard_starts(rule, path):
    """Positions in norm(path) at which the left-to-right scan of `rule` attempts a wildcard (the scan
    stops at the first segment that fails).  Diagnostic helper: lets a case module say whether a given
    character of the request path sits exactly where a wildcard of some rule begins."""
    p = norm(path)
    i = 0
    out = []
    first = True
    for k, seg in enumerate(rule):
        if is_lit(seg):
            text = seg[1][1:] if first else seg[1]
            first = False
            if p[i:i + len(text)] != text:
                return out
            i += len(text)
            continue
        if i >= len(p):
            return out
        out.append(i)
        nxt = rule[k + 1][1] if k + 1 < len(rule) else ''
        got = _take(seg, nxt, p[i:])
        if got is None:
            return out
        i += len(got[0])
    return out


# ----------------------------------------------------------------------------- selecting among rules
def _beats(ta, tb):
    """Pattern ta beats tb: literal (ta) against wildcard (tb) at the first difference."""
    for x, y in zip(ta, tb):
        if x == y:
            continue
        return isinstance(x, str) and not isinstance(y, str)
    return False


def select(rules, path, toks=None):
    """Rule-by-rule selection. `rules`: list of segment lists (`toks`: their precomputed patterns).
    Returns a list of acceptable outcomes; each outcome is a list of (rule index, match) for the rules
    of ONE route (identical patterns).  [] = no rule matches (not found).  More than one outcome only
    if the statement does not order the candidates (wildcards with different filters at the first
    difference), which ombott never admits into one router."""
    cands = []
    for idx, rule in enumerate(rules):
        m = match(rule, path)
        if m is not None:
            cands.append((idx, toks[idx] if toks else tokens(rule), m))
    groups = {}
    for idx, toks, m in cands:
        groups.setdefault(toks, []).append((idx, m))
    best = [t for t in groups if not any(_beats(o, t) for o in groups if o != t)]
    return [groups[t] for t in best]


def candidates_for(verb):
    """Method names tried for a request verb, in order (statement of C02)."""
    verb = verb.upper()
    return [verb, 'GET', 'ANY'] if verb == 'HEAD' else [verb, 'ANY']


def dispatch(table, verb):
    """table: {METHOD(upper): anything}.  ('ok', entry) | ('405', sorted registered names)."""
    for name in candidates_for(verb):
        if name in table:
            return 'ok', table[name]
    return '405', sorted(table)


# ----------------------------------------------------------------------------- URL building (C19)
def literals_in_order(rule, url):
    """Literal parts of the rule appear verbatim and in order in `url` (the leading '/' of the rule is
    optional in the built URL)."""
    pos = 0
    lits = literals(rule)
    for k, text in enumerate(lits):
        if k == 0 and not url.startswith('/'):
            text = text[1:]
        at = url.find(text, pos)
        if at < 0:
            return False
        if k == 0 and at != 0:
            return False
        pos = at + len(text)
    return True


# ----------------------------------------------------------------------------- route hooks (C11)
def hook_calls(matched_rule, path, hooks):
    """hooks: list of (hook rule, hook id).  The calls the statement asks for when `matched_rule` serves
    `path`: every hook whose rule `matched_rule` extends, outermost first, each with the part of the
    (normalised) path its rule covers."""
    m = match(matched_rule, path)
    assert m is not None
    p = norm(path)
    calls = []
    for hrule, hid in hooks:
        if extends(matched_rule, hrule):
            n = len(shape(hrule))
            end = m['ends'][n - 1] if n else 0
            calls.append((n, hid, '/' + p[:end]))
    calls.sort(key=lambda c: c[0])
    return [(hid, prefix) for _n, hid, prefix in calls]
