"""Spec-side helpers for the cookie property C15 (stdlib only, nothing imported or copied from ombott).

  browser_cookie_header(set_cookie_values)   what an RFC 6265 user agent sends back for the Set-Cookie header
                                             values of one response: the cookie-pair (text before the first ';')
                                             of each, verbatim (quotes included), joined by '; '.
  attacker_pair(name, value, quoted)         a Cookie header pair carrying an attacker-chosen value.
  split_signed(v)                            layout of a signed value as named in the property's quantifier
                                             ("signature", "payload"): '!' signature '?' payload  -> (sig, msg) | None
  spec_signed_value(name, value, secret)     a value of that layout made by an attacker who knows the (public)
                                             scheme: payload = base64(pickle((name, value))), signature =
                                             base64(HMAC-MD5(secret, payload)).  Used only to size the tamper
                                             enumeration and to build forgeries; never as an oracle for ombott's output.
"""
import base64
import hashlib
import hmac
import pickle


def browser_cookie_header(set_cookie_values):
    pairs = []
    for v in set_cookie_values:
        pair = v.split(';', 1)[0].strip(' \t')
        if pair:
            pairs.append(pair)
    return '; '.join(pairs)


_RAW_OK = frozenset("abcdefghijklmnopqrstuvwxyzABCDEFGHIJKLMNOPQRSTUVWXYZ0123456789!#$%&'*+-.^_`|~:/=?@()<>[]{}")


def attacker_pair(name, value, quoted=True):
    """`name=value` as a client may send it. Quoted form: inside double quotes with '"' and '\\' escaped by a
    backslash (the quoted-string form every cookie parser since RFC 2109 reads); raw form only when every
    character may stand unquoted, else the quoted form is used."""
    if not quoted and value and all(c in _RAW_OK for c in value):
        return '%s=%s' % (name, value)
    return '%s="%s"' % (name, value.replace('\\', '\\\\').replace('"', '\\"'))


def split_signed(v):
    if not v.startswith('!') or '?' not in v:
        return None
    sig, msg = v[1:].split('?', 1)
    return sig, msg


def _tob(s):
    return s if isinstance(s, bytes) else s.encode('utf8')


def spec_payload(name, value, protocol=-1):
    return base64.b64encode(pickle.dumps((name, value), protocol)).decode('ascii')


def spec_signature(secret, msg, digest=hashlib.md5):
    return base64.b64encode(hmac.new(_tob(secret), _tob(msg), digestmod=digest).digest()).decode('ascii')


def spec_signed_value(name, value, secret):
    msg = spec_payload(name, value)
    return '!' + spec_signature(secret, msg) + '?' + msg
