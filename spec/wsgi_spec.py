"""Independent PEP 3333 response-side validator (spec side, stdlib only, nothing copied from ombott).

Unlike `wsgiref.validate` it never asserts: every function returns a list of problem strings
(empty list == conforming); each string starts with a category tag such as "[once]". Written from PEP 3333 ("the start_response() callable", "handling the
Content-Length header", "buffering and streaming") and RFC 7230 (field-name = token).

Pieces
  record(app, environ, ...)      call an application the way a server does, keeping the RAW arguments of
                                 every start_response call, the chunks, whether close() existed/was called.
  check_status(status)           '<3 digits> <reason>' native str, no control characters / edge blanks.
  check_headers(headers, ...)    list of 2-tuples of native str, token names, Latin-1 values, no controls.
  check_chunks(chunks)           every item yielded is `bytes`.
  may_have_body(code, method)    HEAD, 1xx, 204, 304 never carry a body.
  check_exchange(rec, method, ...)   all of the above + exactly one start_response + body rules.
"""
import re

TOKEN_RE = re.compile(r"^[!#$%&'*+\-.^_`|~0-9A-Za-z]+$")
STATUS_RE = re.compile(r'^[0-9]{3} [^\x00-\x1f\x7f]*[^\x00-\x20\x7f]$')
HOP_BY_HOP = frozenset(['connection', 'keep-alive', 'proxy-authenticate', 'proxy-authorization',
                        'te', 'trailers', 'transfer-encoding', 'upgrade'])


def status_code(status):
    """The integer code of a status line or None."""
    if isinstance(status, str) and len(status) >= 3 and status[:3].isdigit() and status[:3].isascii():
        return int(status[:3])
    return None


def may_have_body(code, method):
    if method == 'HEAD':
        return False
    if code is None:
        return True
    return not (100 <= code < 200 or code in (204, 304))


def check_status(status):
    p = []
    if type(status) is not str:
        return ['[status] status is %s, not a native str' % type(status).__name__]
    if not STATUS_RE.match(status):
        p.append('[status] status line %r is not "<3 digits><space><reason>" without control characters '
                 'or trailing whitespace' % status)
    else:
        code = int(status[:3])
        if code < 100:
            p.append('[status] status code %d < 100' % code)
    return p


def check_headers(headers, raw_list_type=True, control_chars='all'):
    """`control_chars`: 'all' (PEP 3333: no control characters at all, checked as 0x00-0x1f except that
    nothing is exempt, plus 0x7f) or 'crlfnul' (only CR, LF, NUL)."""
    p = []
    if raw_list_type and type(headers) is not list:
        p.append('[headers] header collection is %s, PEP 3333 requires a list' % type(headers).__name__)
    try:
        items = list(headers)
    except TypeError:
        return p + ['[headers] header collection is not iterable']
    for i, item in enumerate(items):
        if type(item) is not tuple or len(item) != 2:
            p.append('[headers] header #%d is %r, not a 2-tuple' % (i, item))
            continue
        name, value = item
        if type(name) is not str:
            p.append('[headers] header #%d name %r is not a native str' % (i, name))
        else:
            if not TOKEN_RE.match(name):
                p.append('[headers] header name %r is not an HTTP token' % name)
            if name.lower() == 'status':
                p.append('[headers] header named Status is forbidden')
            if name.lower() in HOP_BY_HOP:
                p.append('[headers] hop-by-hop header %r set by the application' % name)
        if type(value) is not str:
            p.append('[headers] header %r value %r is %s, not a native str' % (name, value, type(value).__name__))
            continue
        try:
            value.encode('latin1')
        except UnicodeEncodeError:
            p.append('[headers] header %r value %r is not Latin-1 encodable' % (name, value))
        if control_chars == 'all':
            bad = [c for c in value if ord(c) < 0x20 or ord(c) == 0x7f]
        else:
            bad = [c for c in value if c in '\r\n\0']
        if bad:
            p.append('[headers] header %r value %r contains control character(s) %r' % (name, value, sorted(set(bad))))
    return p


def check_chunks(chunks):
    p = []
    for i, c in enumerate(chunks):
        if type(c) is not bytes:
            p.append('[chunks] body chunk #%d is %s, not bytes' % (i, type(c).__name__))
    return p


def header_values(headers, name):
    name = name.lower()
    out = []
    for item in headers or []:
        if isinstance(item, tuple) and len(item) == 2 and isinstance(item[0], str) and item[0].lower() == name:
            out.append(item[1])
    return out


class Exchange:
    """Raw record of one application call."""

    def __init__(self):
        self.start_calls = []       # [(status, headers_object_as_given, exc_info)]
        self.headers_snapshot = []  # shallow copies taken at call time (the app may mutate its list later)
        self.write_calls = 0
        self.result = None
        self.iterable = None        # True/False: iter(result) worked
        self.chunks = []
        self.exhausted = False
        self.has_close = False
        self.close_calls = 0
        self.exc = None             # exception that escaped from app(), iteration or close()
        self.exc_stage = None
        self.errors = ''

    @property
    def status(self):
        return self.start_calls[-1][0] if self.start_calls else None

    @property
    def headers(self):
        return self.headers_snapshot[-1] if self.headers_snapshot else None

    @property
    def code(self):
        return status_code(self.status)

    @property
    def body(self):
        if all(type(c) is bytes for c in self.chunks):
            return b''.join(self.chunks)
        return None


def record(app, environ, max_chunks=None, close=True):
    """Serve one request: call app, iterate (at most `max_chunks` chunks when given), then close()."""
    x = Exchange()

    def write(data):
        x.write_calls += 1

    def start_response(status, headers, exc_info=None):
        x.start_calls.append((status, headers, exc_info))
        try:
            x.headers_snapshot.append(list(headers))
        except TypeError:
            x.headers_snapshot.append(None)
        return write

    stage = 'call'
    try:
        result = x.result = app(environ, start_response)
        stage = 'iter'
        try:
            it = iter(result)
            x.iterable = True
        except TypeError:
            x.iterable = False
            it = None
        if it is not None:
            n = 0
            while max_chunks is None or n < max_chunks:
                try:
                    chunk = next(it)
                except StopIteration:
                    x.exhausted = True
                    break
                x.chunks.append(chunk)
                n += 1
        stage = 'close'
        x.has_close = hasattr(result, 'close')
        if close and x.has_close:
            x.close_calls += 1
            result.close()
    except (KeyboardInterrupt, SystemExit):
        raise
    except BaseException as e:  # noqa - recorded, the caller's contract decides
        x.exc = e
        x.exc_stage = stage
    err = environ.get('wsgi.errors')
    x.errors = err.getvalue() if hasattr(err, 'getvalue') else ''
    return x


def check_exchange(x, method, framework_content_length=False, control_chars='all'):
    """All PEP 3333 response-side requirements that can be seen from outside.

    framework_content_length: the Content-Length header (if any) is known to be computed by the
    framework for the body it returns; then, when the response may carry a body and the iterable was
    consumed to its end, it must equal the number of bytes returned."""
    p = []
    if x.exc is not None:
        p.append('[escaped] exception escaped to the server during %s: %r' % (x.exc_stage, x.exc))
    n = len(x.start_calls)
    if n != 1:
        p.append('[once] start_response called %d times, expected exactly once' % n)
    if n == 0:
        return p
    for k, (status, headers, exc_info) in enumerate(x.start_calls):
        if k > 0 and exc_info is None:
            p.append('[once] start_response call #%d repeated without exc_info' % (k + 1))
        if exc_info is not None and not (type(exc_info) is tuple and len(exc_info) == 3):
            p.append('[once] exc_info %r is not a 3-tuple' % (exc_info,))
    status, headers, _ = x.start_calls[-1]
    p += check_status(status)
    p += check_headers(headers, control_chars=control_chars)
    if x.exc is None or x.exc_stage == 'close':
        if x.iterable is False:
            p.append('[chunks] application returned a non-iterable %s' % type(x.result).__name__)
        p += check_chunks(x.chunks)
    if x.write_calls:
        pass  # legal (deprecated) - nothing to report
    code = status_code(status)
    nbytes = sum(len(c) for c in x.chunks if type(c) is bytes)
    if not may_have_body(code, method) and nbytes:
        p.append('[no_body] %s response to %s carries a body of %d bytes' % (status, method, nbytes))
    cls = header_values(x.headers, 'Content-Length')
    if len(cls) > 1:
        p.append('[content_length] Content-Length emitted %d times' % len(cls))
    for v in cls:
        if not (isinstance(v, str) and v.isascii() and v.isdigit()):
            p.append('[content_length] Content-Length %r is not a decimal number' % (v,))
    if (framework_content_length and cls and may_have_body(code, method) and x.exhausted
            and all(isinstance(v, str) and v.isascii() and v.isdigit() for v in cls)):
        for v in cls:
            if int(v) != nbytes:
                p.append('[content_length] Content-Length %s != %d bytes returned' % (v, nbytes))
    return p
