"""Spec side of multipart/form-data (RFC 7578 on top of RFC 2046 section 5.1.1).

Written from the RFCs, not from ombott. Used by the C06/C07 (and C12) contracts.

    multipart-body := [preamble CRLF] dash-boundary CRLF body-part *(delimiter CRLF body-part)
                      close-delimiter [CRLF epilogue]
    dash-boundary  := "--" boundary          delimiter := CRLF dash-boundary
    close-delimiter:= delimiter "--"
    body-part      := header-lines CRLF CRLF data        (data must not contain the delimiter)

(no transport padding, no preamble is ever generated here). RFC 7578: every part carries
`Content-Disposition: form-data; name="..."` (plus `filename="..."` for files) and optionally a
Content-Type; names/filenames are sent as raw UTF-8 inside the quoted string (section 5.1); the
boundary parameter of the request Content-Type is emitted unquoted.

A *field list* is a list of
    ('text', name, value)                           name, value: str
    ('file', name, filename, content_type, data)    data: bytes
"""

CRLF = b'\r\n'


def _b(x):
    return x.encode('utf8') if isinstance(x, str) else bytes(x)


def content_type_header(boundary):
    """Value of the request's Content-Type header (boundary parameter unquoted)."""
    b = boundary.decode('latin1') if isinstance(boundary, bytes) else boundary
    return 'multipart/form-data; boundary=' + b


def part_headers(field):
    """Header block (without the terminating empty line) of one form field."""
    kind = field[0]
    if kind == 'text':
        _, name, _value = field
        assert '"' not in name and '\r' not in name and '\n' not in name
        return b'Content-Disposition: form-data; name="' + _b(name) + b'"'
    if kind == 'file':
        _, name, filename, ctype, _data = field
        for s in (name, filename):
            assert '"' not in s and '\r' not in s and '\n' not in s
        out = b'Content-Disposition: form-data; name="' + _b(name) + b'"; filename="' + _b(filename) + b'"'
        if ctype is not None:
            out += CRLF + b'Content-Type: ' + _b(ctype)
        return out
    raise ValueError(kind)


def part_data(field):
    return _b(field[2]) if field[0] == 'text' else bytes(field[4])


def build(parts, boundary, closing=True, final_crlf=False, epilogue=b''):
    """Assemble a body from raw (header_block, data) pairs. `epilogue` (bytes after the CRLF that
    follows the close-delimiter) implies the CRLF; final_crlf=True is the empty epilogue."""
    bd = _b(boundary)
    out = []
    for i, (hdr, data) in enumerate(parts):
        out.append((b'' if i == 0 else CRLF) + b'--' + bd + CRLF + hdr + CRLF + CRLF + data)
    if closing:
        out.append((CRLF if parts else b'') + b'--' + bd + b'--')
        if final_crlf or epilogue:
            out.append(CRLF + epilogue)
    return b''.join(out)


def encode(fields, boundary, final_crlf=True, epilogue=b''):
    """RFC 7578 encoding of a field list. Raises ValueError when the boundary is not legal for
    these fields (the delimiter would occur inside a part)."""
    parts = [(part_headers(f), part_data(f)) for f in fields]
    body = build(parts, boundary, closing=True, final_crlf=final_crlf, epilogue=epilogue)
    if not legal_boundary(parts, boundary):
        raise ValueError('boundary occurs inside the encapsulated material')
    return body


def legal_boundary(parts, boundary):
    """The delimiter (CRLF--boundary) may occur only where build() puts it: check by re-splitting."""
    bd = _b(boundary)
    if not bd or len(bd) > 70 or b'\r' in bd or b'\n' in bd or bd.endswith(b' '):
        return False
    body = build(parts, boundary, closing=True)
    try:
        got = split(body, boundary)
    except ValueError:
        return False
    return got['closed'] and [(body[a:b], body[c:d]) for a, b, c, d in got['parts']] == [(bytes(h), bytes(d)) for h, d in parts]


def split(body, boundary):
    """Trivial reference splitter: plain bytes.split on the delimiter.

    Returns {'parts': [(hdr_start, hdr_end, data_start, data_end), ...] (offsets into body),
             'closed': bool (close-delimiter seen), 'close_end': offset just behind it or None,
             'epilogue': bytes behind the close-delimiter or None}.
    Only parts that are complete (terminated by a delimiter) are listed. Raises ValueError if the body
    is not of the well-formed shape (preamble, junk after a delimiter, no header end in a part)."""
    bd = _b(boundary)
    delim = CRLF + b'--' + bd
    text = CRLF + bytes(body)          # the first dash-boundary is a delimiter without preamble
    pieces = text.split(delim)
    if pieces[0] != b'':
        raise ValueError('preamble')
    pos = len(delim) - 2               # offset in body just behind the first dash-boundary
    parts = []
    closed, close_end, epilogue = False, None, None
    for k, piece in enumerate(pieces[1:], start=1):
        last = (k == len(pieces) - 1)
        if piece.startswith(b'--'):
            closed = True
            close_end = pos + 2
            epilogue = bytes(body[close_end:])
            if epilogue and not epilogue.startswith(CRLF):
                raise ValueError('junk behind the close-delimiter')
            break
        if last:
            break                      # unterminated (truncated) part: not listed
        if not piece.startswith(CRLF):
            raise ValueError('junk behind a delimiter')
        start = pos + 2
        sep = piece.find(CRLF + CRLF, 2)
        if sep < 0:
            raise ValueError('no header end in a part')
        parts.append((start, pos + sep, pos + sep + 4, pos + len(piece)))
        pos += len(piece) + len(delim)
    return {'parts': parts, 'closed': closed, 'close_end': close_end, 'epilogue': epilogue}


def close_delimiter_end(body, boundary):
    """Offset just behind the close-delimiter `--boundary--` of a well-formed body/prefix, else None."""
    try:
        return split(body, boundary)['close_end']
    except ValueError:
        return None


# --- reference grammar check used by the small-scope enumeration ---------------------------------

def wellformed_status(s, boundary, header_line_ok=None):
    """'complete' if s is a well-formed body for `boundary`, 'prefix' if it is a proper prefix of one,
    None otherwise (or when in doubt). Conservative on purpose:

      * no preamble; the body starts with the dash-boundary;
      * a header block is one or more non-empty lines free of CR and LF, joined by CRLF (RFC 7578
        demands at least Content-Disposition, so an empty header block is not accepted); optional
        `header_line_ok(line_bytes, complete)` restricts lines further;
      * data is any byte string that does not contain the delimiter; the delimiter that ends it must be
        followed by CRLF (next part) or `--` (close);
      * behind the close-delimiter: nothing, or CRLF followed by any bytes (epilogue).
    """
    s = bytes(s)
    bd = _b(boundary)
    dash = b'--' + bd
    delim = CRLF + dash
    n = len(s)

    def lit(pos, token):
        """match a literal: ('ok', newpos) | ('prefix', None) | (None, None)"""
        got = s[pos:pos + len(token)]
        if got == token:
            return 'ok', pos + len(token)
        if token.startswith(got):      # input ran out inside the token
            return 'prefix', None
        return None, None

    st, pos = lit(0, dash)
    if st != 'ok':
        return st
    nparts = 0
    while True:
        # behind a dash-boundary: CRLF (a part follows) or -- (close)
        two = s[pos:pos + 2]
        if two == b'--':
            pos += 2
            if pos == n:
                return 'complete'
            st, p2 = lit(pos, CRLF)
            if st == 'ok':
                return 'complete'      # any epilogue
            return st
        if two != CRLF:
            if len(two) < 2 and (CRLF.startswith(two) or b'--'.startswith(two)):
                return 'prefix'
            return None
        pos += 2
        # header block
        while True:
            eol = pos
            while eol < n and s[eol] not in (13, 10):
                eol += 1
            line = s[pos:eol]
            if eol == n:
                if header_line_ok is not None and line and not header_line_ok(line, False):
                    return None
                return 'prefix'
            if not line:
                return None            # empty header block / bare LF / CR at line start
            if header_line_ok is not None and not header_line_ok(line, True):
                return None
            st, pos = lit(eol, CRLF)
            if st != 'ok':
                return st
            two = s[pos:pos + 2]
            if two == CRLF:
                pos += 2
                break
            if two == b'\r' and pos + 1 == n:
                return 'prefix'
            if two[:1] in (b'\r', b'\n'):
                return None
            if not two:
                return 'prefix'
        # data up to the first delimiter
        i = s.find(delim, pos)
        if i < 0:
            return 'prefix'
        nparts += 1
        pos = i + len(delim)


def enumerate_wellformed_prefixes(alphabet, boundary, maxlen, max_epilogue=None):
    """All strings of length 1..maxlen over `alphabet` (bytes) that are well-formed bodies or prefixes of
    well-formed bodies (wellformed_status), in DFS order, as (string, status). The set is prefix-closed,
    so the DFS prunes exactly. max_epilogue bounds the number of bytes behind the close-delimiter
    (counting the CRLF), which otherwise dominates the count with 5**k arbitrary epilogues."""
    letters = [bytes([c]) for c in alphabet]

    def rec(s, behind_close):
        for c in letters:
            t = s + c
            st = wellformed_status(t, boundary)
            if st is None:
                continue
            if behind_close is not None:
                b = behind_close + 1
            else:
                b = 0 if st == 'complete' else None
            if max_epilogue is not None and b is not None and b > max_epilogue:
                continue
            yield t, st
            if len(t) < maxlen:
                yield from rec(t, b)
    yield from rec(b'', None)


# --- lenient completeness oracle used by C12 (malformed bodies) -----------------------------------

def is_complete_part_data(body, boundary, blob):
    """C12: "a field that is delivered always holds the complete data of a part that was terminated by a
    delimiter, never a truncated one". For ARBITRARY (malformed) bodies, where split() refuses to answer:
    True iff `blob` occurs in `body` at some [h, d) such that
      (1) a blank line ends at h (body[h-4:h] == CRLF CRLF: the end of a header block, possibly an empty one),
      (2) a delimiter begins at d (body[d:] starts with CRLF "--" boundary), and
      (3) no delimiter begins inside [h, d)  -- d is the first delimiter behind that blank line.
    Lenient where the statement is silent (which blank line ends the header block of a malformed part, what
    follows the boundary); strict about the END of the data: it must be the delimiter, never EOF or earlier."""
    body = bytes(body)
    blob = bytes(blob)
    delim = CRLF + b'--' + _b(boundary)
    if delim in blob:
        return False
    n = len(blob)
    start = 0
    while True:
        h = body.find(blob, start)
        if h < 0:
            return False
        if h >= 4 and body[h - 4:h] == CRLF + CRLF and body.startswith(delim, h + n):
            return True
        start = h + 1
        if start > len(body):
            return False
