"""RFC 7233 single-range semantics used by the C17 contract (written from the RFC, not from ombott).

    Range             = byte-ranges-specifier            (other-range-units are not 'bytes')
    byte-ranges-specifier = bytes-unit "=" byte-range-set          bytes-unit = "bytes"
    byte-range-set    = 1#( byte-range-spec / suffix-byte-range-spec )
    byte-range-spec   = first-byte-pos "-" [ last-byte-pos ]       positions: 1*DIGIT (ASCII)
    suffix-byte-range-spec = "-" suffix-length                     suffix-length: 1*DIGIT

`first_range(header, length)` looks only at the FIRST comma separated spec (that is what the property
talks about) and returns the half open slice (s, e) it selects from a representation of `length`
bytes, clipped as section 2.1 says:

    suffix  -n   -> (max(0, length - n), length)      "if the representation is shorter than the suffix
                                                        length, the entire representation is used"
    open    a-   -> (a, length)
    closed  a-b  -> (a, min(b + 1, length))           "if last-byte-pos >= current length, it is taken to
                                                        be one less than the current length"
    None when the spec does not parse, when last < first (invalid) or when the clipped slice is not
    0 <= s < e <= length (unsatisfiable: first-byte-pos >= length, suffix length 0, empty file).

`classify(header)` tells whether the header is inside the grammar (in the plain list form without empty
list elements: specs separated by "," with optional blanks around the comma).  Outside the grammar the
property only demands self-consistency of an answer, inside it demands the slice above.
"""
import re

_DIG = '[0-9]+'
_SPEC = '(?:%s-(?:%s)?|-%s)' % (_DIG, _DIG, _DIG)
_HEADER = re.compile(r'bytes=%s(?:[ \t]*,[ \t]*%s)*' % (_SPEC, _SPEC))
_FIRST = re.compile(r'bytes=(?:(?P<a>%s)-(?P<b>%s)?|-(?P<n>%s))[ \t]*(?:,.*)?' % (_DIG, _DIG, _DIG), re.S)


def in_grammar(header):
    """True iff `header` is a byte-ranges-specifier of RFC 7233 (plain list form, ASCII digits)."""
    return isinstance(header, str) and _HEADER.fullmatch(header) is not None


def first_spec(header):
    """('suffix', n) | ('open', a) | ('closed', a, b) for the first range-spec, or None (no parse).

    Only the first comma separated element has to be well formed here (what follows the first comma
    is not looked at)."""
    if not isinstance(header, str):
        return None
    m = _FIRST.fullmatch(header)
    if not m:
        return None
    if m.group('n') is not None:
        return ('suffix', int(m.group('n')))
    if m.group('b') is None:
        return ('open', int(m.group('a')))
    return ('closed', int(m.group('a')), int(m.group('b')))


def clip(spec, length):
    """The half open slice selected by a parsed spec from `length` bytes, or None."""
    if spec is None:
        return None
    if spec[0] == 'suffix':
        s, e = max(0, length - spec[1]), length
    elif spec[0] == 'open':
        s, e = spec[1], length
    else:
        if spec[2] < spec[1]:
            return None                      # invalid byte-range-spec
        s, e = spec[1], min(spec[2] + 1, length)
    if 0 <= s < e <= length:
        return (s, e)
    return None


def first_range(header, length):
    return clip(first_spec(header), length)


def is_invalid_first(header):
    """first spec parses but last-byte-pos < first-byte-pos (RFC: recipient MUST ignore it)."""
    sp = first_spec(header)
    return bool(sp and sp[0] == 'closed' and sp[2] < sp[1])
