"""Reference for the chunked transfer coding, written from RFC 7230 section 4.1 (not from ombott).

    chunked-body   = *chunk last-chunk trailer-part CRLF
    chunk          = chunk-size [ chunk-ext ] CRLF chunk-data CRLF
    chunk-size     = 1*HEXDIG
    last-chunk     = 1*("0") [ chunk-ext ] CRLF
    chunk-ext      = *( ";" chunk-ext-name [ "=" chunk-ext-val ] )      (BWS around ";" and "=" tolerated, RFC 9112)
    chunk-ext-val  = token / quoted-string

Two things are provided:

* `encode(...)`  -- spec-side encoder that also tells which wire offsets are framing bytes and where the
  zero-size line ends (the point before which every cut is "cut short before the terminating zero-size chunk").
* `decode(wire)` -- the reference decoder. It classifies a byte string by the FIRST place where it leaves
  the grammar, in exactly the classes that the statement of C05 distinguishes:

    'legal'      every chunk and the zero-size line are well formed; `.body` is the concatenation of the payloads
                 (the trailer part after the zero-size line is not judged: the statement speaks about the body only)
    'truncated'  everything read so far is well formed and the input ends before the end of the zero-size line
                 (= the byte string is a strict prefix of a legal encoding, cut before its terminating zero chunk)
    'no_crlf'    a well formed size line, its complete data, and then something that is not CRLF
    'garbage'    a size line that is not `1*HEXDIG [chunk-ext]` (any other framing garbage)

  C05 demands rejection for 'truncated' and 'no_crlf', exactness for 'legal', and only "acceptance or a
  client error" for 'garbage'.
"""
import re

CRLF = b'\r\n'

_TOKEN = rb"[!#$%&'*+\-.^_`|~0-9A-Za-z]+"
_QUOTED = rb'"(?:[\t \x21\x23-\x5b\x5d-\x7e\x80-\xff]|\\[\t \x20-\x7e\x80-\xff])*"'
_EXT = rb'(?:[ \t]*;[ \t]*' + _TOKEN + rb'(?:[ \t]*=[ \t]*(?:' + _TOKEN + rb'|' + _QUOTED + rb'))?)*'
SIZE_LINE = re.compile(rb'([0-9A-Fa-f]+)(' + _EXT + rb')')

# completions tried to decide whether an unterminated line is a prefix of some legal size line
_COMPLETIONS = (b'\r\n', b'\n', b'0\r\n', b'x\r\n', b'"\r\n', b'x"\r\n', b';x\r\n', b'=x\r\n')


class Verdict:
    __slots__ = ('kind', 'body', 'end', 'lines', 'why', 'chunks')

    def __init__(self, kind, body, end, lines, why, chunks):
        self.kind = kind          # 'legal' | 'truncated' | 'no_crlf' | 'garbage'
        self.body = body          # payload decoded so far (complete body iff kind == 'legal')
        self.end = end            # offset just after the zero-size line (legal) / where the parse stopped
        self.lines = lines        # lengths of the complete size lines read, each including its CRLF
        self.why = why
        self.chunks = chunks      # number of complete non-zero chunks

    def as_dict(self):
        return dict(kind=self.kind, body=self.body, end=self.end, lines=self.lines, why=self.why)


def legal_line(content: bytes):
    """content = a size line without its CRLF; -> match object or None."""
    if b'\r' in content or b'\n' in content:
        return None
    return SIZE_LINE.fullmatch(content)


def is_line_prefix(rest: bytes) -> bool:
    """True iff `rest` (which contains no CRLF) can be extended to a legal size line + CRLF."""
    for s in _COMPLETIONS:
        cand = rest + s
        if cand.find(CRLF) == len(cand) - 2 and legal_line(cand[:-2]) is not None:
            return True
    return False


def decode(wire: bytes) -> Verdict:
    pos = 0
    body = []
    lines = []
    chunks = 0
    while True:
        eol = wire.find(CRLF, pos)
        if eol < 0:
            rest = wire[pos:]
            if is_line_prefix(rest):
                return Verdict('truncated', b''.join(body), pos, lines, 'input ends inside a size line', chunks)
            return Verdict('garbage', b''.join(body), pos, lines, 'unterminated malformed size line', chunks)
        m = legal_line(wire[pos:eol])
        if m is None:
            return Verdict('garbage', b''.join(body), pos, lines, 'malformed size line', chunks)
        lines.append(eol + 2 - pos)
        size = int(m.group(1), 16)
        pos = eol + 2
        if size == 0:
            return Verdict('legal', b''.join(body), pos, lines, 'zero-size line reached', chunks)
        data = wire[pos:pos + size]
        if len(data) < size:
            return Verdict('truncated', b''.join(body), pos, lines, 'input ends inside chunk data', chunks)
        pos += size
        tail = wire[pos:pos + 2]
        if tail == CRLF:
            body.append(data)
            chunks += 1
            pos += 2
            continue
        if tail in (b'', b'\r'):
            return Verdict('truncated', b''.join(body), pos, lines, 'input ends before the CRLF after chunk data', chunks)
        return Verdict('no_crlf', b''.join(body), pos, lines, 'chunk data not followed by CRLF', chunks)


def encode(pieces, size_fmt='{:x}', ext='', zero='0', zero_ext=None, trailer=b''):
    """-> dict(wire, framing (sorted offsets of framing bytes up to and including the final CRLF),
               zero_end (offset just after the CRLF of the zero-size line), lines (size line lengths incl. CRLF),
               payload (concatenation of the pieces)).
    pieces: non-empty byte strings; size_fmt: format of the chunk size ('{:x}', '{:X}', '{:03x}', ...);
    ext: chunk extension text appended to every size line ('' | ';x' | ';a=b' ...); zero: spelling of the
    last-chunk size ('0', '00', ...); trailer: complete trailer field lines, each ending in CRLF."""
    if zero_ext is None:
        zero_ext = ext
    out = bytearray()
    framing = []
    lines = []

    def put(b, is_framing):
        if is_framing:
            framing.extend(range(len(out), len(out) + len(b)))
        out.extend(b)

    for p in pieces:
        assert len(p) > 0
        line = size_fmt.format(len(p)).encode('ascii') + ext.encode('latin1') + CRLF
        lines.append(len(line))
        put(line, True)
        put(p, False)
        put(CRLF, True)
    line = zero.encode('ascii') + zero_ext.encode('latin1') + CRLF
    assert set(zero) == {'0'}
    lines.append(len(line))
    put(line, True)
    zero_end = len(out)
    put(trailer, True)
    put(CRLF, True)
    return dict(wire=bytes(out), framing=framing, zero_end=zero_end, lines=lines, payload=b''.join(pieces))


def payload_offset_bound(pieces_lens, lines, npayload):
    """For an encoding with the given piece lengths and size-line lengths (as returned by encode):
    the wire offset at which the data of the chunk FOLLOWING the chunk that holds payload byte number
    `npayload` (1-based) begins -- an upper bound for what any reader that hands out at most `npayload`
    payload bytes needs to take from the stream, framing included (CRLF after the data + next size line).
    If `npayload` is beyond the payload, the offset of the end of the zero-size line."""
    off = 0
    seen = 0
    for i, n in enumerate(pieces_lens):
        off += lines[i]            # size line
        if seen + n >= npayload:
            return off + n + 2 + lines[i + 1]
        seen += n
        off += n + 2
    return off + lines[len(pieces_lens)]
