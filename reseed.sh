#!/bin/bash
# usage: reseed.sh <seeded dir> <id> [props...]  -- re-run the quick checks of the recorded properties against a scratch copy of
# /repo with <seeded dir>/<id>/patch.diff applied (refreshes .check_* / .evidence_* there; confirmation part is not repeated)
D=/verif/$1/$2; shift 2
[ -f $D/patch.diff ] || { echo "no patch in $D"; exit 9; }
PROPS="$@"
[ -n "$PROPS" ] || PROPS=$(python3 -c "import json,sys;print(' '.join(sorted(json.load(open('$D/meta.json'))['checks_run'])))")
S=/tmp/ombott-seed-$$; rm -rf $S; mkdir -p $S; cp -r /repo/ombott $S/ombott
( cd $S && git init -q . && git apply $D/patch.diff ) || { echo "PATCH DOES NOT APPLY TO CURRENT /repo: $D"; rm -rf $S; exit 8; }
rm -rf $S/.git
cd /verif
RES=""
for Q in $PROPS; do
  VERIF_REPO=$S timeout 1500 python3-vt check.py $Q --tier quick > $D/.check_$Q 2>&1; rc=$?
  RES="$RES $Q:$rc"
  cp replays/evidence-scratch/$Q.json $D/.evidence_$Q.json 2>/dev/null
done
rm -rf $S
echo "RESEED $D checks=$RES"
