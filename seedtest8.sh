#!/bin/bash
# usage: seedtest.sh Cxx N [extra props...]   -- confirm a seeded change from /tmp/wt-Cxx (patchN.diff, demo_Cxx_N.py) and run the checks on it
# 1. confirmation in the scratch worktree: tests pass with the change, demo fails with it and passes without it
# 2. the quick check of the property (and of any extra property given) is run against a scratch copy of /repo with the change applied
P=$1; N=$2; shift 2
WT=/tmp/wt8-$P
PATCH=$WT/patch$N.diff; DEMO=$WT/demo_${P}_$N.py
[ -f $PATCH ] || PATCH=$WT/patch.diff
[ -f $DEMO ] || DEMO=$WT/demo_${P}.py
OUT=/verif/seeded8/${P}_$N; mkdir -p $OUT
cp $PATCH $OUT/patch.diff; cp $DEMO $OUT/$(basename $DEMO)
cd $WT && git checkout -q -- ombott
/venv/bin/python $DEMO >/dev/null 2>&1; d0=$?
git apply $PATCH || { echo "patch does not apply in worktree"; exit 9; }
/venv/bin/python -m pytest -q -p no:cacheprovider 2>&1 | tail -1 > $OUT/.pytest; t=$(cat $OUT/.pytest)
/venv/bin/python $DEMO > $OUT/.demo_out 2>&1; d1=$?
git checkout -q -- ombott
echo "demo without change: exit $d0; with change: exit $d1; tests with change: $t"
# scratch copy of /repo + patch
S=/tmp/ombott-seed-$$; rm -rf $S; mkdir -p $S; cp -r /repo/ombott $S/ombott
( cd $S && git init -q . && git apply $PATCH ) || { echo "PATCH DOES NOT APPLY TO CURRENT /repo"; rm -rf $S; exit 8; }
rm -rf $S/.git
cd /verif
RES=""
for Q in $P "$@"; do
  VERIF_REPO=$S timeout 1500 python3-vt check.py $Q --tier quick > $OUT/.check_$Q 2>&1; rc=$?
  grep -h "VIOLATION\|failed:\|UNDECIDED" $OUT/.check_$Q | head -12
  echo "check $Q rc=$rc"
  RES="$RES $Q:$rc"
  cp replays/evidence-scratch/$Q.json $OUT/.evidence_$Q.json 2>/dev/null
done
rm -rf $S
echo "RESULT $P $N demo0=$d0 demo1=$d1 tests='$t' checks=$RES"
